#!/usr/bin/env python3
"""Writes MANIFEST.json from the table below (kept in one place so it stays valid)."""
import json, os
ROOT = os.path.normpath(os.path.join(os.path.dirname(os.path.abspath(__file__)), ".."))
TITLES = {l["id"]: l["title"] for l in map(json.loads, open(os.path.join(ROOT, "properties.jsonl")))}

# id -> (technique, level text, level note, design ref)
CLAIMED = {}
def claim(pid, technique, text, note, ref):
    CLAIMED[pid] = (technique, text, note, ref)

COMMON_NOTE = ("Trusted: Coq 8.16.1 kernel + vm_compute; translator tools/translate.py; extraction (ExtrOcamlBasic only) and "
               "ocaml/driver.ml; Rust harness and generators; hand-entered RFC/IANA reference data. Modelled, not verified: "
               "coset's control flow (hand transliteration tied by the correspondence run), ciborium 0.2.2, Rust std semantics. "
               "All property theorems are closed under the global context (no axioms). The Rust harness is built in release mode WITH overflow checks, so arithmetic overflow in the crate is observed as a panic.")

claim("C16", "Coq proof (order laws + equality with lexicographic / length-first order of RFC 8949 deterministic encodings) + model/implementation correspondence on label pairs",
      "Machine-checked theorems over all labels (unbounded integers/texts) that the model's Ord is the order of the deterministic encodings and a total order consistent with equality; the model is tied to the Rust code by running both on all pairs of a boundary palette and comparing with an independent Python comparison of encodings.",
      COMMON_NOTE, "DESIGN.md 7 (C16)")
claim("C17", "Coq proof by computation over registry tables regenerated from src/iana/mod.rs by the translator + exhaustive-window correspondence",
      "The 16 registry tables are re-extracted from the source on every run; theorems (finite, by vm_compute, lifted with forallb_forall) show conversions mutually inverse, one-to-one, included in a frozen IANA reference, private predicate = (< -65536), and the label classification; from_i64/is_private/label decoding are also compared against the implementation on an integer window.",
      COMMON_NOTE, "DESIGN.md 7 (C17)")


for _pid, _t in (("C03", "Sig_structure"), ("C04", "MAC_structure"), ("C05", "Enc_structure")):
    claim(_pid, "Coq proof (model function = RFC 8152 %s over a hand-written RFC 8949 deterministic encoder; injectivity from the proved codec round trip) + 3-way run: implementation vs extracted model vs independent Python encoder" % _t,
          "Theorems for all headers/AAD/payloads (no length bound below 2^64): the structure function returns exactly the RFC array in deterministic encoding, with the context strings regenerated from the source and pinned to the RFC's; callers use the stated context/slots and panic exactly where documented; the structure is injective in every component. The Rust functions and every create/verify/decrypt helper are run on generated tuples across bstr length classes and compared byte-for-byte with the model and with an independent Python encoder.",
          COMMON_NOTE, "DESIGN.md 7 (C03-C05)")


claim("C13", "Coq proof (parser-extension lemma de_ext + fuel lemmas => suffix gives ExtraneousData, every proper prefix rejected, also inside protected bstr and for tagged forms) + correspondence over cut points/suffixes and API-layer agreement run on the implementation",
      "Theorems for every byte string and every type (generic in the conversion function): appending any non-empty suffix to an accepted input yields ExtraneousData and every proper prefix is rejected, including the header map inside a protected byte string and the tagged entry points. API-layer agreement is definitional in the model and is checked on the implementation (from_slice vs from_cbor_value(read), to_vec vs to_cbor_value().to_vec()) for every type.",
      COMMON_NOTE, "DESIGN.md 7 (C13)")
claim("C14", "Coq proof (tag constants regenerated from source pinned to 98/18/96/16/97/17; tagged decode iff tag applied once to an accepted body, all tag-head widths; known boundary class depth=256 proved as refutation) + (type x tag x width x body) matrix on implementation and model",
      "Theorems: tagged encoding = head(6,tag) ++ untagged encoding; tagged decoding accepts iff the item is that tag applied once to an item the untagged converter accepts (other tag / untagged / doubly tagged rejected; untagged decoders reject every tagged item); byte-level equivalence for every tag-head width under the explicit proviso that the body decodes within 255 nesting levels, with a proved witness that the proviso is necessary (known finding F5).",
      COMMON_NOTE, "DESIGN.md 7 (C14), 8 (F5)")
claim("C15", "Coq proof (each narrowing site = explicit range test; every head width and bignum spelling decodes to the same integer; encode/decode exact), one known class (out-of-range error masked for signatures nested in COSE_Sign, witness proved) + boundary-lattice correspondence at every interpreting position, also inside nested carriers with the exact error kind",
      "Theorems over all integers: label / registry label / timestamp / nonce decode exactly iff in the i64 range and give OutOfRangeIntegerValue otherwise, key-data-length likewise for u64; byte level: all head widths and both bignum spellings of an integer decode to the same value, and every CBOR integer round-trips. The implementation is run on the +-1 lattice around 0, 23/24, 2^8, 2^16, 2^32, 2^63, 2^64 in every width at every interpreting position with exact expected outcomes computed independently.",
      COMMON_NOTE, "DESIGN.md 7 (C15)")


_ACC = ("Coq proof of accept-iff against a declarative order-insensitive specification (lookup under each label; CDDL-shaped acceptors) "
        "+ structured correspondence (valid / single-fault / multi-fault / duplicate / every-kind-per-slot generators, several encodings per value)")
claim("C08", _ACC,
      "Theorem: for every CBOR value, the header decoder returns Ok h exactly when the declarative header_spec accepts with the same h (typed fields = lookups, extras in wire order, IV/Partial-IV exclusion, counter-signature shapes), at every nesting level; the sequential early-exit decoder with its seen-set is proved equivalent to key normalisation + distinctness + per-field shapes. The implementation is compared with the proved model on generated maps (each rule violated at each position, both IV orders, all content-type palettes) in several encodings and carriers.",
      COMMON_NOTE + " Unicode White_Space recognition (str::trim) is shared between model and spec and is tied to the implementation by the content-type palettes.", "DESIGN.md 7 (C08)")
claim("C09", _ACC,
      "Theorems: each of the eight message decoders returns Ok m exactly when the CDDL-shaped acceptor (exact arity, bstr that is empty or exactly one encoded header map, header map, bstr/nil, bstr, nested arrays decoded by the same rules) returns m; arities regenerated from the source are pinned to 4,4,3,5,4,4,3,3|4. Implementation vs model on arrays of arity 0..7 with every CBOR kind in every slot, nested recipients/signatures, and the same bytes decoded as all eight types.",
      COMMON_NOTE, "DESIGN.md 7 (C09)")
claim("C10", _ACC,
      "Theorems: CoseKey / CoseKeySet decoders return Ok exactly when key_spec / keyset_spec accept with the same value (kty mandatory, registered and not Reserved or text; key_ops non-empty, distinct, collected as the sorted set; extras in wire order). Implementation vs model on generated key maps (kty anywhere / absent / reserved / unregistered; repeated integer and text operations) in two encodings.",
      COMMON_NOTE, "DESIGN.md 7 (C10)")
claim("C18", _ACC + "; encode/decode round trip proved for claims sets, PartyInfo, SuppPubInfo and CoseKdfContext; byte-level decode/encode/decode fixed point for the four types; KDF contexts observed through to_vec on the implementation (private fields)",
      "Theorems: ClaimsSet, PartyInfo, SuppPubInfo and CoseKdfContext decoders accept exactly what their declarative specs accept, with the same field values; well-formed values of all four types encode to a value that decodes back to them (SuppPubInfo's `other` emitted exactly when present, even when empty), every decoded value is well-formed, and decode/encode/decode is a fixed point at byte level. Encoding of well-formed values of the four types is compared with an independent Python encoder and decoded back on the implementation.",
      COMMON_NOTE, "DESIGN.md 7 (C18)")


claim("C19", "Coq proof over all builder states and all call sequences (header builder = independently written documented effect; invariants by induction over fold_left of the step function; exact panic ranges; frame and override laws) + model-based testing of call histories on every public builder method",
      "Theorems: the header builder's step equals an independently written record-update specification for every op and hence for every call sequence; no call sequence yields a header with both IV and Partial IV; value()/param()/claim()/private_claim() panic exactly on the reserved ranges and append otherwise; every protected-header setter discards retained wire bytes; for ALL 14 builders: the exact effect of every call (the one field replaced or appended to, all others unchanged; creators put the closure's output into exactly one field, with exact Ok / Err / Panic conditions), a frame law for every returning call, later setters override earlier ones, accumulation laws for the adders, and commutation of calls with disjoint read/write footprints; key constructors populate exactly kty and parameters. The proofs' weight is in the invariants; a copy-paste slip in one macro-generated Rust setter is caught by running generated call histories (all 14 builders, every public method) on the implementation and the proved model.",
      COMMON_NOTE, "DESIGN.md 7 (C19)")
claim("C20", "Coq proof (canonicalize = stable sort of the extras under the label order; emitted keys strictly ascending in the RFC 8949 / RFC 7049 order of their encodings; permutation; idempotence; known class label Int(0) proved as refutation) + all-permutations correspondence with an independent Python sortedness oracle",
      "Theorems for every well-formed key and both orderings: canonicalize only permutes the extra parameters, the emitted map's encoded keys are strictly ascending (typed labels 1..5 encode lowest except against label 0), sorting is idempotent; with an extra label Int(0) the statement is false and a witness is proved (known finding F3). The implementation's output is checked for strictly ascending encoded keys by an independent parser, for unchanged content, no-op on repetition, and decode/re-encode stability.",
      COMMON_NOTE, "DESIGN.md 7 (C20), 8 (F3)")


claim("C12", "Coq proof (a repeated label is never accepted by the three map decoders and is reported as DuplicateMapKey when the preceding entries are acceptable; header/key encoders never emit a repeated key; claims-set encoder refuted = known finding; duplicate-key error masked for signatures nested in COSE_Sign = known finding, witness proved) + duplicate injection at every position pair, exact error kind at 37 nesting positions / nesting position and encode-side oracle with an independent parser",
      "Theorems: for header, COSE_Key and claims-set decoders, any map in which two keys normalise to the same label is never accepted, and yields DuplicateMapKey whenever the entries before the second occurrence are acceptable; header_to_value / CoseKey_to_value outputs have pairwise distinct keys (extras repeating a label or naming a populated typed field fail). ClaimsSet encoding has no duplicate check: proved witness, listed as known finding F2b (pinned upstream by test_cwt_dup_claim). Implementation is run on otherwise-valid maps with one duplicated, differently encoded key at every position and nesting position, and on in-memory values with clashing extras whose output maps are parsed independently.",
      COMMON_NOTE, "DESIGN.md 7 (C12), 8 (F2)")


claim("C02", "Coq proof (decoded protected headers keep the received bytes at every nesting level - hereditary invariant through counter-signatures, signers, recipients, KDF supp info - and encoding writes them back verbatim; parsed view independent of encoding) + correspondence over several encodings x carriers x nesting positions with independent oracles",
      "Theorems: protected_from_bstr stores exactly the received byte string and protected_cbor_bstr returns it whatever the parsed header is; for each of the eight message types and SuppPubInfo the slot is retained on decode and re-emitted on encode; an inductive invariant shows every protected header nested anywhere inside any decoded header/message (counter-signatures, signers, nested recipients, KDF) carries retained bytes; two encodings that parse to the same value give the same parsed view, and h'' / h'a0' both give the empty view. The implementation is run on header contents in >= 4 encodings (widths, indefinite lengths, key order, empty forms) in ten carrier/nesting shapes: retained bytes, re-encoded bytes, and the bytes handed to tbs/tbm/aad helpers are compared with the wire bytes and an independent Python Sig/MAC/Enc_structure.",
      COMMON_NOTE, "DESIGN.md 7 (C02)")


claim("C01", "Coq proof of panic-freedom / totality of the model (every index, remove, unwrap/expect, assert of the Rust code is an explicit Panic branch; decoders, byte entry points, encoders, helpers on decoded values) of the protected-nesting bound, and of a linear work bound (at most 3|input|+1 parser steps on every input, tight) and frame-depth bound (256) for the byte parser via an instrumented copy proved equal to the model; PARTIAL: stack bytes per frame, allocation and wall time are runtime behaviour explored by the harness on a 2 MiB thread, with and without the std feature",
      "Theorems: every value-level decoder and every byte-level entry point (untagged/tagged) returns Ok or Err for every input - never Panic, never OutOfFuel (fuel sufficiency proved); every encoder is total on every in-memory value; on decoded messages the tbs/verify/MAC/decrypt helpers do not panic under their documented preconditions and panic exactly where documented otherwise; protected-header re-parsing is bounded by the budget read from the source (16, F1 repair); the byte parser makes at most 3|l|+1 calls of its four mutually recursive functions on any input l (accepted or not, any fuel), at most three per consumed byte on acceptance, the factor 3 being attained, and never opens more than 256 nested frames. Partial by nature: stack depth per frame, allocation and wall time are not expressible in the model; they are explored by running exhaustive short inputs for all entry points, mutated structured inputs, CBOR nesting 254..300, declared-length bombs, protected-nesting depth up to 5000 (10^5 thorough) and inputs up to 1 MiB (16 MiB thorough) on a default-size thread, detecting panics, aborts and hangs.",
      COMMON_NOTE, "DESIGN.md 7 (C01), 8 (F1)")
claim("C06", "Coq proof (for any builder state at creation time and any later state that keeps protected/payload/signature: encode, decode, verify hands the closure exactly the stored signature/tag/ciphertext and the bytes the creator was given; injectivity gives sensitivity) + builder-history correspondence with independent Python structures",
      "Theorems for all seven creating builders (Sign1 embedded/detached, Sign with signer index, Mac0, Mac, Encrypt0, Encrypt, recipient): if the creator was given tbs in state st and the message later keeps its protected header, payload and signature, then after to_value/from_value (and to_vec/from_slice, tagged or not, for wire-normal values) the verify/decrypt helper returns exactly f(stored signature, tbs); a failing fallible creator yields its error and no message; any change to context, protected headers, AAD or payload changes the bytes. In a second group of theorems (suffix _total) encoding and decoding success are conclusions: for every well-formed built message (T_bwf) the whole chain create, serialise, parse, verify/decrypt succeeds and returns f(stored, tbs); for Sign1 also the tbs computation and the builder step (sign1_builder_sign_then_verify_total). Implementation: generated builder histories with create calls, then encode (tagged/untagged), decode, verify with equal and perturbed AAD, compared with the model and with Python-computed structures.",
      COMMON_NOTE, "DESIGN.md 7 (C06)")
claim("C07", "Coq proof with one known class: for every type and every input shorter than 2^64 bytes whose parse contains no tag 2/3 directly over a short non-normal byte string, if the input decodes to m then m encodes to b' and b' decodes to m (byte level, all 18 decoder/encoder pairs); built from: parser output is in normal form; re-serialise/re-parse is the identity on normal values; value-level decode=>encode=>decode fixed point for every type with protected bytes verbatim at every nesting level; re-encoding a decoded value stays wire-normal and no deeper. Witness of the known class proved. + decode/encode/decode/encode run on every accepted generated input of every type",
      "Theorems: C07_all_types_bytes_fixed_point_full (the property's statement for Label, PartyInfo, CoseKey, CoseKeySet, ClaimsSet, Header, ProtectedHeader (both entry points), CoseSignature, the seven message structures, SuppPubInfo, CoseKdfContext), its from_slice form, non-vacuity example; supporting: from_reader output satisfies value_nf0 and depth <= 256; from_reader (ser v) = v for normal v; T_decode_encode_fixed_point; T_reencode_nf (value_nf v' and depth v' <= depth v); F4 witness (C07_short_bignum_refuted) for the excluded class. Implementation side: for every accepted input (structured, mutated, non-canonical), decode(encode(decode b)) = decode b and second encoding = first, and its bytes equal the model's.",
      COMMON_NOTE, "DESIGN.md 7 (C07), 8 (F4), 13.2")
claim("C11", "Coq proof (encode/decode round trip 'wf x -> to_value x = Ok v /\\ from_value v = Ok (assign x)' for every type incl. Header, the message structures and the KDF context types, and through bytes for wire-normal values; protected-slot shape, is_empty <-> all fields empty, distinct keys and totality of all encoders) + three-way run: implementation vs model vs independent Python encoder, decode-back on the implementation, definite-length check by an independent parser",
      "Theorems: every well-formed value (bwf predicates; shown non-vacuous: every decoded value satisfies them) encodes to a value that decodes back to it with protected bytes assigned, for all 16 types, also through bytes for wire-normal values; the protected slot is the stored bytes / h'' / bstr(encoded map); Header::is_empty holds iff all eight fields are empty; header and key maps have distinct keys; no encoder panics. 'Exactly the populated fields under their registered labels' is carried by the accept-iff specifications (C08-C10, C18) through which the round trips are proved, and independently by comparing the implementation's output byte-for-byte with an independent Python encoder of the CDDL shape (every field singly and in combination, single-field protected headers in all eight message types) and decoding it back.",
      COMMON_NOTE, "DESIGN.md 7 (C11), 13.3")

def main():
    props = sorted(TITLES)
    checks = []
    for pid in props:
        if pid not in CLAIMED: continue
        tech, text, note, ref = CLAIMED[pid]
        checks.append({
            "property_id": pid,
            "quick_cmd": "./check %s --tier quick" % pid,
            "thorough_cmd": "./check %s --tier thorough" % pid,
            "evidence_file": "evidence/%s.json" % pid,
            "replay_cmd_template": "./check %s --replay {path}" % pid,
            "engine": "coq-model-correspondence",
            "level_claimed": {"category": "proof", "text": text, "design_ref": ref},
            "level_note": note,
            "technique": tech,
        })
    na = [{"property_id": pid, "reason": "check not built yet in this revision (in progress; the technique applies)"}
          for pid in props if pid not in CLAIMED]
    m = {
        "version": 1,
        "setup_cmd": "./setup.sh",
        "hooks": {"guard": "coset_verif", "enable": "none needed: every observable is reachable through the public API (no source hooks)",
                  "baseline_off_cmd": "cd /repo && cargo test --workspace --no-fail-fast --offline",
                  "source_commits": [], "add_only": True},
        "engines": [{"name": "coq-model-correspondence", "path": "check",
                     "serves_properties": sorted(CLAIMED),
                     "kind_free_text": "Coq 8.16 proofs about an executable Gallina model of coset + ciborium; translator for tables/constants; extracted OCaml model vs Rust harness differential run; independent Python oracles"}],
        "checks": checks,
        "notes": "fix: commits in /repo: 4832ab7 (C01 nesting bound), 718589d (C12 duplicate label on encode). Known findings: known_findings.json.",
        "not_applicable": na,
    }
    json.dump(m, open(os.path.join(ROOT, "MANIFEST.json"), "w"), indent=1)
    print("MANIFEST.json: %d checks, %d not claimed" % (len(checks), len(na)))
if __name__ == "__main__":
    main()
