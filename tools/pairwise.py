"""Greedy 2-way covering arrays: every pair of values of every two parameters occurs in some row.
Used to build deterministic case families in which features are COMBINED systematically (a fault
that needs one particular value of one field together with one particular value of another field,
carrier, position or encoding is hit by construction, not by luck)."""
import itertools

def pairwise(params, rng=None, tries=30):
    """params: list of lists of values -> list of rows (tuples), all pairs covered"""
    n = len(params)
    if n == 0: return []
    if n == 1: return [(v,) for v in params[0]]
    uncovered = set()
    for i, j in itertools.combinations(range(n), 2):
        for a in range(len(params[i])):
            for b in range(len(params[j])):
                uncovered.add((i, a, j, b))
    rows = []
    import random
    r = rng or random.Random(0)
    while uncovered:
        best = None; bestc = -1
        # seed each candidate with one uncovered pair, fill the rest greedily / randomly
        seeds = r.sample(sorted(uncovered), min(tries, len(uncovered)))
        for (i, a, j, b) in seeds:
            row = [None] * n; row[i] = a; row[j] = b
            order = [k for k in range(n) if row[k] is None]; r.shuffle(order)
            for k in order:
                bv = 0; bc = -1
                cand = list(range(len(params[k]))); r.shuffle(cand)
                for v in cand:
                    c = 0
                    for m in range(n):
                        if row[m] is None or m == k: continue
                        key = (m, row[m], k, v) if m < k else (k, v, m, row[m])
                        if key in uncovered: c += 1
                    if c > bc: bc = c; bv = v
                row[k] = bv
            c = sum(1 for x, y in itertools.combinations(range(n), 2) if (x, row[x], y, row[y]) in uncovered)
            if c > bestc: bestc = c; best = row
        for x, y in itertools.combinations(range(n), 2):
            uncovered.discard((x, best[x], y, best[y]))
        rows.append(tuple(params[k][best[k]] for k in range(n)))
    return rows

if __name__ == "__main__":
    rows = pairwise([list(range(5))] * 8 + [list(range(10)), list(range(3))])
    print(len(rows))
