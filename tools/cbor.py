"""Tiny CBOR toolkit for the case generators and the direct oracles.

Values are tuples:
  ('i', n)  ('b', bytes)  ('t', bytes)  ('f', bits64)  ('T',) ('F',) ('N',)
  ('g', tag, v)  ('a', [v..])  ('m', [(k, v)..])
  ('raw', bytes)   -- pre-encoded item spliced in as is (generators only)
"""
import struct

def I(n): return ('i', n)
def B(b): return ('b', bytes(b))
def T(s): return ('t', s.encode() if isinstance(s, str) else bytes(s))
def A(*xs): return ('a', list(xs))
def M(*kvs): return ('m', list(kvs))
def G(t, v): return ('g', t, v)
NULL = ('N',)
TRUE = ('T',)
FALSE = ('F',)

def head(mt, n, width=None):
    """width: None = shortest; 0,1,2,4,8 = forced argument width (0 = in the initial byte)"""
    if width is None:
        width = 0 if n < 24 else 1 if n < 256 else 2 if n < 65536 else 4 if n < 2**32 else 8
    if width == 0:
        assert n < 24
        return bytes([mt * 32 + n])
    code = {1: 24, 2: 25, 4: 26, 8: 27}[width]
    return bytes([mt * 32 + code]) + n.to_bytes(width, 'big')

def widths_for(n):
    return [w for w in (0, 1, 2, 4, 8) if (w == 0 and n < 24) or (w > 0 and n < 256 ** w)]

def f64_bits(x):
    return struct.unpack('>Q', struct.pack('>d', x))[0]

def _float_bytes(bits):
    if bits == 'NaN': bits = 0x7ff8000000000000   # a NaN read back from an observation line
    d = struct.unpack('>d', struct.pack('>Q', bits))[0]
    if d != d:
        # NaN: ciborium picks the shortest width whose widening reproduces the bits; widening
        # always sets the quiet bit and shifts the payload (half / cvtss2sd on this platform)
        sign = bits >> 63; mant = bits & ((1 << 52) - 1)
        if (mant >> 51) & 1 and mant & ((1 << 42) - 1) == 0:
            return b'\xf9' + ((sign << 15) | 0x7c00 | (mant >> 42)).to_bytes(2, 'big')
        if (mant >> 51) & 1 and mant & ((1 << 29) - 1) == 0:
            return b'\xfa' + ((sign << 31) | 0x7f800000 | (mant >> 29)).to_bytes(4, 'big')
        return b'\xfb' + bits.to_bytes(8, 'big')
    try:
        h = struct.pack('>e', d)
        if struct.unpack('>e', h)[0] == d and f64_bits(struct.unpack('>e', h)[0]) == bits:
            return b'\xf9' + h
    except (OverflowError, struct.error):
        pass
    try:
        s = struct.pack('>f', d)
        if f64_bits(struct.unpack('>f', s)[0]) == bits:
            return b'\xfa' + s
    except (OverflowError, struct.error):
        pass
    return b'\xfb' + bits.to_bytes(8, 'big')

def enc(v, rng=None, style=None):
    """Deterministic (RFC 8949 4.2.1, keys kept in given order) when rng is None.
    With rng: random non-canonical choices (head widths, indefinite lengths, segmented strings,
    bignum spellings of integers) -- same data-model value."""
    k = v[0]
    def hd(mt, n):
        if rng is None:
            return head(mt, n)
        return head(mt, n, rng.choice(widths_for(n)))
    if k == 'raw':
        return v[1]
    if k == 'i':
        n = v[1]
        if rng is not None and style != 'nobignum' and rng.random() < 0.08 and -2**64 <= n < 2**64:
            mag = n if n >= 0 else -1 - n
            body = mag.to_bytes(max(1, (mag.bit_length() + 7) // 8), 'big')
            body = b'\x00' * rng.choice([0, 0, 1, 3]) + body
            if len(body) <= 16:
                return hd(6, 2 if n >= 0 else 3) + head(2, len(body)) + body
        return hd(0, n) if n >= 0 else hd(1, -1 - n)
    if k in ('b', 't'):
        mt = 2 if k == 'b' else 3
        s = v[1]
        if rng is not None and rng.random() < 0.15:
            # indefinite with segments (text segments must not split characters: cut at ASCII)
            out = bytes([mt * 32 + 31])
            i = 0
            while i < len(s):
                j = min(len(s), i + rng.choice([1, 2, 3, 7]))
                if k == 't':
                    while j < len(s) and (s[j] & 0xC0) == 0x80:
                        j += 1
                out += hd(mt, j - i) + s[i:j]
                i = j
            return out + b'\xff'
        return hd(mt, len(s)) + s
    if k == 'f':
        return _float_bytes(v[1])
    if k == 'T': return b'\xf5'
    if k == 'F': return b'\xf4'
    if k == 'N':
        if rng is not None and rng.random() < 0.1:
            return b'\xf7'
        return b'\xf6'
    if k == 'g':
        return hd(6, v[1]) + enc(v[2], rng, style)
    if k == 'a':
        body = b''.join(enc(x, rng, style) for x in v[1])
        if rng is not None and rng.random() < 0.15:
            return b'\x9f' + body + b'\xff'
        return hd(4, len(v[1])) + body
    if k == 'm':
        body = b''.join(enc(a, rng, style) + enc(b, rng, style) for a, b in v[1])
        if rng is not None and rng.random() < 0.15:
            return b'\xbf' + body + b'\xff'
        return hd(5, len(v[1])) + body
    raise ValueError(v)

class DecodeError(Exception):
    pass

def dec(b, pos=0):
    """independent parser (RFC 8949 incl. indefinite lengths); returns (value, next pos).
    Integers via tag 2/3 are left as tags."""
    if pos >= len(b):
        raise DecodeError('eof')
    ib = b[pos]; mt = ib >> 5; ai = ib & 31; pos += 1
    if ai < 24: n = ai
    elif ai in (24, 25, 26, 27):
        w = 1 << (ai - 24)
        if pos + w > len(b): raise DecodeError('eof')
        n = int.from_bytes(b[pos:pos + w], 'big'); pos += w
    elif ai == 31: n = None
    else: raise DecodeError('ai')
    if mt == 0:
        if n is None: raise DecodeError('indef int')
        return ('i', n), pos
    if mt == 1:
        if n is None: raise DecodeError('indef int')
        return ('i', -1 - n), pos
    if mt in (2, 3):
        kind = 'b' if mt == 2 else 't'
        if n is not None:
            if pos + n > len(b): raise DecodeError('eof')
            return (kind, bytes(b[pos:pos + n])), pos + n
        out = b''
        while True:
            if pos >= len(b): raise DecodeError('eof')
            if b[pos] == 0xff: return (kind, out), pos + 1
            v, pos = dec(b, pos)
            if v[0] != kind: raise DecodeError('segment')
            out += v[1]
    if mt == 4:
        items = []
        if n is not None:
            for _ in range(n):
                v, pos = dec(b, pos); items.append(v)
            return ('a', items), pos
        while True:
            if pos >= len(b): raise DecodeError('eof')
            if b[pos] == 0xff: return ('a', items), pos + 1
            v, pos = dec(b, pos); items.append(v)
    if mt == 5:
        items = []
        if n is not None:
            for _ in range(n):
                k, pos = dec(b, pos); v, pos = dec(b, pos); items.append((k, v))
            return ('m', items), pos
        while True:
            if pos >= len(b): raise DecodeError('eof')
            if b[pos] == 0xff: return ('m', items), pos + 1
            k, pos = dec(b, pos); v, pos = dec(b, pos); items.append((k, v))
    if mt == 6:
        if n is None: raise DecodeError('indef tag')
        v, pos = dec(b, pos)
        return ('g', n, v), pos
    # mt 7
    if ai == 20: return ('F',), pos
    if ai == 21: return ('T',), pos
    if ai in (22, 23): return ('N',), pos
    if ai == 25:
        return ('f', f64_bits(struct.unpack('>e', n.to_bytes(2, 'big'))[0])), pos
    if ai == 26:
        return ('f', f64_bits(struct.unpack('>f', n.to_bytes(4, 'big'))[0])), pos
    if ai == 27:
        return ('f', n), pos
    raise DecodeError('simple')

def dec_all(b):
    v, pos = dec(b, 0)
    if pos != len(b):
        raise DecodeError('trailing')
    return v

def is_definite(b, pos=0):
    """True iff the item at pos uses only definite lengths (walks the item); returns (ok, next)"""
    ib = b[pos]; mt = ib >> 5; ai = ib & 31; pos += 1
    if ai < 24: n = ai
    elif ai in (24, 25, 26, 27):
        w = 1 << (ai - 24); n = int.from_bytes(b[pos:pos + w], 'big'); pos += w
    else:
        return False, pos
    if mt in (0, 1, 7): return True, pos
    if mt in (2, 3): return True, pos + n
    if mt == 6: return is_definite(b, pos)
    cnt = n if mt == 4 else 2 * n
    for _ in range(cnt):
        ok, pos = is_definite(b, pos)
        if not ok: return False, pos
    return True, pos

# ---------- parser for the observation format printed by both sides ----------
def parse_show(s):
    v, i = _ps(s, 0)
    if i != len(s):
        raise ValueError('trailing in show: %r' % s[i:i + 20])
    return v

def _hexrun(s, i):
    j = i
    while j < len(s) and s[j] in '0123456789abcdef':
        j += 1
    return s[i:j], j

def _ps(s, i):
    c = s[i]
    if c == 'i':
        i += 1
        neg = s[i] == '-'
        if neg: i += 1
        assert s[i:i + 2] == '0x'
        h, j = _hexrun(s, i + 2)
        n = int(h, 16)
        return ('i', -n if neg else n), j
    if c == 'h' or c == 't':
        h, j = _hexrun(s, i + 1)
        return ('b' if c == 'h' else 't', bytes.fromhex(h)), j
    if c == 'f':
        if s.startswith('fNaN', i):
            return ('f', 'NaN'), i + 4
        assert s[i + 1:i + 3] == '0x'
        h, j = _hexrun(s, i + 3)
        return ('f', int(h, 16)), j
    if c == 'T': return ('T',), i + 1
    if c == 'F': return ('F',), i + 1
    if c == 'N': return ('N',), i + 1
    if c == 'g':
        assert s[i + 1:i + 3] == '0x'
        h, j = _hexrun(s, i + 3)
        assert s[j] == '('
        v, j = _ps(s, j + 1)
        assert s[j] == ')'
        return ('g', int(h, 16), v), j + 1
    if c == '[':
        items = []; i += 1
        if s[i] == ']': return ('a', items), i + 1
        while True:
            v, i = _ps(s, i); items.append(v)
            if s[i] == ',': i += 1
            elif s[i] == ']': return ('a', items), i + 1
            else: raise ValueError('array')
    if c == '{':
        items = []; i += 1
        if s[i] == '}': return ('m', items), i + 1
        while True:
            k, i = _ps(s, i)
            assert s[i] == ':'
            v, i = _ps(s, i + 1); items.append((k, v))
            if s[i] == ',': i += 1
            elif s[i] == '}': return ('m', items), i + 1
            else: raise ValueError('map')
    raise ValueError('show: %r' % s[i:i + 20])
