#!/usr/bin/env python3
"""seedround.py <N> <Cxx> ...: prepare round N of seeded-change prompts (one scratch worktree of /repo and one
prompt per property; the prompt carries only the property text and the one-line summaries of earlier ideas to avoid)"""
import json, os, glob, subprocess, sys
ROOT = os.path.dirname(os.path.dirname(os.path.abspath(__file__)))
N = sys.argv[1]
props = {json.loads(l)['id']: json.loads(l) for l in open(os.path.join(ROOT, 'properties.jsonl'))}
tpl = open(os.path.join(ROOT, 'tools', 'seedprompt.tpl')).read()
for P in sys.argv[2:]:
    wt = '/tmp/wt%s-%s' % (N, P); out = '/tmp/seed-out%s/%s' % (N, P)
    p = props[P]
    text = "%s: %s\n\n%s\n\nQuantifier: %s\n" % (P, p['title'], p['statement'], p['quantifier']['text'])
    sums = []
    for d in sorted(glob.glob(os.path.join(ROOT, 'seeded', P + '-*'))):
        m = json.load(open(d + '/meta.json')); sums.append('"' + m['summary'][:150].replace('"', "'") + '"')
    t = tpl.replace('@WT@', wt).replace('@OUT@', out).replace('@PROPERTY@', text).replace('@P@', P).replace('@IDEAS@', '; '.join(sums))
    os.makedirs(out, exist_ok=True)
    open(out + '/prompt.txt', 'w').write(t); open(out + '/property.txt', 'w').write(text)
    subprocess.check_call(['git', '-C', '/repo', 'worktree', 'add', '--detach', wt, 'HEAD'], stdout=subprocess.DEVNULL, stderr=subprocess.DEVNULL)
    print(P, wt, out)
