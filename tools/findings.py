"""Known findings (committed list, never written at run time) and the minimised-failure corpus."""
import os, json, re
ROOT = os.path.normpath(os.path.join(os.path.dirname(os.path.abspath(__file__)), ".."))
KF = json.load(open(os.path.join(ROOT, "known_findings.json")))

def open_findings(pid):
    return [(f["id"], f["text"]) for f in KF["findings"] if f["property"] == pid and f["status"] == "open"]

def corpus_cases(pid):
    p = os.path.join(ROOT, "corpus", pid + ".txt")
    if not os.path.exists(p): return []
    return [{"line": l.strip(), "fam": "corpus"} for l in open(p) if l.strip() and not l.startswith("#")]

SHORT_BIGNUM = re.compile(r"g0x[23]\(h([0-9a-f]{0,32})\)")

def classify(pid, c, impl, model, kind, msg):
    """id of the open finding whose class this failing case belongs to, else None"""
    for f in KF["findings"]:
        if f["property"] != pid or f["status"] != "open": continue
        pred = f["class_predicate"]
        if pred == "short_bignum_value" and c.get("short_bignum"): return f["id"]
        if pred == "claims_duplicate_encode" and c.get("claims_dup"): return f["id"]
        if pred == "key_label_zero" and c.get("label_zero"): return f["id"]
        if pred == "tagged_depth_256" and c.get("depth256"): return f["id"]
        if pred == "sign_nested_dup_masked" and c.get("sign_nested") and impl == "err:Unexpected": return f["id"]
        if pred == "sign_nested_range_masked" and c.get("sign_nested") and impl == "err:Unexpected": return f["id"]
    return None

def witness_still_fails(fid, runner):
    for f in KF["findings"]:
        if f["id"] == fid and "witness" in f:
            out = runner.run_impl([f["witness"]["line"]])
            return bool(out) and re.fullmatch(f["witness"]["fails_when_matches"], out[0]) is not None
    return False
