#!/bin/sh
# like seedconfirm.sh for the 25th-round worktrees (/tmp/wt25-*, /tmp/seed-out25/*); no git stash
set -e
P=$1; NAME=$2; WT=/tmp/wt25-$P; OUT=/tmp/seed-out25/$P
cd $WT
git checkout -q -- src
git apply $OUT/patch.diff
mkdir -p tests; cp $OUT/demo.rs tests/demo.rs
echo "== suite with change"; CARGO_NET_OFFLINE=true cargo test --offline --lib --quiet 2>&1 | grep "test result" | head -2
echo "== demo with change (must fail)"; if CARGO_NET_OFFLINE=true cargo test --offline --test demo --quiet 2>&1 | grep -q "test result: FAILED\|SIGABRT\|overflowed"; then echo "demo FAILS with change: ok"; else echo "!! demo does not fail with change"; fi
git apply -R $OUT/patch.diff
echo "== demo without change (must pass)"; CARGO_NET_OFFLINE=true cargo test --offline --test demo --quiet 2>&1 | grep "test result" | head -1
git apply $OUT/patch.diff
mkdir -p /verif/seeded/$NAME
cp $OUT/patch.diff /verif/seeded/$NAME/patch.diff
cp $OUT/demo.rs /verif/seeded/$NAME/demo.rs
cp $OUT/meta.json /verif/seeded/$NAME/meta.json
cd /verif && python3 tools/seedtest.py $NAME
