#!/usr/bin/env python3
"""Translator: regenerate coq/gen/Generated.v from the declarative data in /repo/src.

Extracted on every run (see DESIGN.md 4.1):
  * every iana_registry! table (name, integer) in source order
  * *_PRIVATE_USE_MAX constants and the comparison operator of each is_private
  * context strings of SignatureContext / MacContext / EncryptionContext
  * the CBOR tag associated with each TaggedCborSerializable type
  * label constants of header / key / cwt modules
  * literal array arities checked by each from_cbor_value
  * MAX_PROTECTED_NESTING and its guard (if present)
Exit status 0 and the file is (re)written only when its content changed; exit 2 and a
message on stderr when an expected construct is missing (tie broken).
"""
import re, sys, os, json

REPO = os.environ.get("COSET_REPO", "/repo")
OUT = os.path.join(os.path.dirname(os.path.abspath(__file__)), "..", "coq", "gen", "Generated.v")

class Missing(Exception):
    pass

def strip_comments(s):
    # remove // comments (incl. doc comments) and /* */ comments; keep string literals intact
    out = []
    i = 0
    n = len(s)
    while i < n:
        c = s[i]
        if c == '"':
            j = i + 1
            while j < n and s[j] != '"':
                if s[j] == '\\':
                    j += 1
                j += 1
            out.append(s[i:j + 1]); i = j + 1
        elif s.startswith("//", i):
            j = s.find("\n", i)
            if j < 0: j = n
            i = j
        elif s.startswith("/*", i):
            j = s.find("*/", i + 2)
            if j < 0: j = n - 2
            i = j + 2
        elif c == "'" and i + 2 < n and s[i + 2] == "'":
            out.append(s[i:i + 3]); i += 3
        else:
            out.append(c); i += 1
    return "".join(out)

def read(rel):
    p = os.path.join(REPO, "src", rel)
    if not os.path.exists(p):
        raise Missing("source file %s" % rel)
    return strip_comments(open(p).read())

def parse_int(e):
    """integer constant expression: literals (decimal / hex, `_` separators, type suffixes), unary minus,
    parentheses, + - * << >> and `as <type>` casts"""
    t = e.strip().replace("_", "")
    t = re.sub(r"\bas\s+[iu](?:8|16|32|64|128|size)\b", "", t)
    t = re.sub(r"(?<=[0-9a-fA-F])(?:[iu](?:8|16|32|64|128|size))\b", "", t)
    if not re.fullmatch(r"[0-9a-fA-FxX+\-*()<>\s]+", t) or "**" in t or not re.search(r"\d", t):
        raise Missing("integer constant expression, got %r" % e)
    t = re.sub(r"\b0+(?=\d)", "", t)           # no octal surprises
    try:
        v = eval(t, {"__builtins__": {}}, {})
    except Exception:
        raise Missing("integer constant expression, got %r" % e)
    if not isinstance(v, int):
        raise Missing("integer constant expression, got %r" % e)
    return v

def block_after(s, start):
    """return the text of the {...} block whose opening brace is the first '{' at/after start"""
    i = s.index("{", start)
    depth = 0
    j = i
    while j < len(s):
        if s[j] == '"':
            k = j + 1
            while s[k] != '"':
                if s[k] == '\\': k += 1
                k += 1
            j = k
        elif s[j] == "{": depth += 1
        elif s[j] == "}":
            depth -= 1
            if depth == 0:
                return s[i + 1:j], j + 1
        j += 1
    raise Missing("balanced block")

def registries(src):
    regs = []
    for m in re.finditer(r"iana_registry!\s*\{", src):
        body, _ = block_after(src, m.start())
        body = re.sub(r"#\[[^\]]*\]", "", body)
        m2 = re.match(r"\s*(\w+)\s*\{", body)
        if not m2:
            raise Missing("registry name")
        inner, _ = block_after(body, m2.start())
        ents = []
        for part in inner.split(","):
            part = part.strip()
            if not part:
                continue
            m3 = re.fullmatch(r"(\w+)\s*:\s*(.+)", part, re.S)
            if not m3:
                raise Missing("registry entry in %s: %r" % (m2.group(1), part))
            ents.append((m3.group(1), parse_int(m3.group(2))))
        regs.append((m2.group(1), ents))
    if not regs:
        raise Missing("iana_registry! invocations")
    return regs

def privates(src):
    consts = dict((m.group(1), parse_int(m.group(2)))
                  for m in re.finditer(r"pub\s+const\s+(\w+)\s*:\s*i64\s*=\s*([^;]+);", src))
    out = []
    for m in re.finditer(r"impl\s+WithPrivateRange\s+for\s+(\w+)\s*\{", src):
        body, _ = block_after(src, m.start())
        m2 = re.search(r"fn\s+is_private\s*\(\s*(\w+)\s*:\s*i64\s*\)\s*->\s*bool\s*\{\s*(\w+)\s*(<=|>=|<|>|==|!=)\s*(-?\w+)\s*\}", body)
        if not m2 or m2.group(1) != m2.group(2):
            raise Missing("is_private body of %s" % m.group(1))
        rhs = m2.group(4)
        bound = consts[rhs] if rhs in consts else parse_int(rhs)
        out.append((m.group(1), m2.group(3), bound))
    if not out:
        raise Missing("WithPrivateRange impls")
    return out

def ctx_texts(src, enum):
    m = re.search(r"impl\s+%s\s*\{" % enum, src)
    if not m:
        raise Missing("impl %s" % enum)
    body, _ = block_after(src, m.start())
    arms = re.findall(r"%s::(\w+)\s*=>\s*\"([^\"]*)\"" % enum, body)
    if not arms:
        raise Missing("text() arms of %s" % enum)
    return arms

def tags(srcs):
    out = []
    for src in srcs:
        for m in re.finditer(r"impl\s+(?:crate::)?TaggedCborSerializable\s+for\s+(\w+)\s*\{", src):
            body, _ = block_after(src, m.start())
            m2 = re.search(r"const\s+TAG\s*:\s*u64\s*=\s*iana::CborTag::(\w+)\s+as\s+u64\s*;", body)
            if m2:
                out.append((m.group(1), "CborTag", m2.group(1)))
            else:
                m3 = re.search(r"const\s+TAG\s*:\s*u64\s*=\s*([^;]+);", body)
                if not m3:
                    raise Missing("TAG of %s" % m.group(1))
                out.append((m.group(1), "", str(parse_int(m3.group(1)))))
    if not out:
        raise Missing("TaggedCborSerializable impls")
    return out

def label_consts(src):
    out = []
    for m in re.finditer(r"const\s+(\w+)\s*:\s*Label\s*=\s*Label::Int\(\s*iana::(\w+)::(\w+)\s+as\s+i64\s*\)\s*;", src):
        out.append((m.group(1), m.group(2), m.group(3)))
    return out

def claim_consts(src):
    out = []
    for m in re.finditer(r"const\s+(\w+)\s*:\s*ClaimName\s*=\s*ClaimName::Assigned\(\s*iana::(\w+)::(\w+)\s*\)\s*;", src):
        out.append((m.group(1), m.group(2), m.group(3)))
    return out

def arities(srcs):
    out = []
    for src in srcs:
        for m in re.finditer(r"impl\s+AsCborValue\s+for\s+(\w+)\s*\{", src):
            body, _ = block_after(src, m.start())
            body = from_value_body(src, m.group(1), body)
            if "try_as_array()" not in body:
                continue
            m2 = re.search(r"if\s+([^{]*?\.len\(\)[^{]*?)\{", body)
            if not m2:
                continue
            cond = " ".join(m2.group(1).split())
            ne = re.fullmatch(r"(\w+)\.len\(\) != (\d+)((?: && \1\.len\(\) != \d+)*)", cond)
            lt = re.fullmatch(r"(\w+)\.len\(\) < (\d+)", cond)
            if ne:
                nums = [int(x) for x in re.findall(r"!= (\d+)", cond)]
                out.append((m.group(1), "in", nums))
            elif lt:
                out.append((m.group(1), "ge", [int(lt.group(2))]))
            else:
                raise Missing("arity condition of %s: %r" % (m.group(1), cond))
    return out

def from_value_body(src, ty, impl_body):
    """the body that holds the decoding logic: from_cbor_value, or the crate-internal
    *_nested variant it delegates to"""
    m = re.search(r"fn\s+from_cbor_value\s*\(", impl_body)
    if not m:
        return impl_body
    body, _ = block_after(impl_body, m.start())
    if "_nested(" in body and ".len()" not in body:
        m2 = re.search(r"fn\s+from_cbor_value_nested\s*\(", src)
        for mm in re.finditer(r"impl\s+%s\s*\{" % ty, src):
            b2, _ = block_after(src, mm.start())
            m3 = re.search(r"fn\s+from_cbor_value_nested\s*\(", b2)
            if m3:
                body, _ = block_after(b2, m3.start())
                return body
    return body

def nesting(src):
    m = re.search(r"const\s+(\w*NEST\w*)\s*:\s*usize\s*=\s*([^;]+);", src)
    if not m:
        return None
    lim = parse_int(m.group(2))
    m2 = re.search(r"(\w+)\s*(>=|>|==)\s*(?:\w+::)*%s\b" % re.escape(m.group(1)), src)
    if not m2:
        raise Missing("guard using %s" % m.group(1))
    return (lim, m2.group(2))

def coq_str(s):
    return '"' + s.replace('"', '""') + '"'

def coq_z(n):
    return "(%d)" % n if n < 0 else "%d" % n

LASTGOOD = os.path.join(os.path.dirname(os.path.abspath(__file__)), "Generated.lastgood.v")
NOTES = []

def section(name, lines_fn):
    """one block of Generated.v.  When the source construct it is read from is no longer recognised
    (a rewrite in a style the translator does not know), the block of the committed last-good copy is
    reused and a note is printed: for that item the tie to the source then rests on the correspondence
    run alone (every item is also exercised there: registry sweep, context strings and tags against the
    RFC's, arity and nesting families), never on an assertion."""
    head = "(* @section %s *)" % name
    try:
        body = lines_fn()
    except Missing as e:
        try:
            old = open(LASTGOOD).read()
            i = old.index(head); j = old.find("(* @section ", i + 1)
            body = old[i + len(head):(j if j >= 0 else len(old))].strip("\n").split("\n")
            NOTES.append("note: translator: %s not recognised in the source (%s); last-good value reused, tie by correspondence only" % (name, e))
        except (OSError, ValueError):
            raise e
    return [head] + body + [""]

def generate():
    iana = read("iana/mod.rs")
    header = read("header/mod.rs")
    key = read("key/mod.rs")
    cwt = read("cwt/mod.rs")
    sign = read("sign/mod.rs")
    mac = read("mac/mod.rs")
    enc = read("encrypt/mod.rs")
    ctx = read("context/mod.rs")
    L = []
    L.append("(* GENERATED by tools/translate.py from /repo/src -- do not edit *)")
    L.append("From Coq Require Import List ZArith String.")
    L.append("Import ListNotations.")
    L.append("Open Scope Z_scope. Open Scope string_scope.")
    L.append("")
    def s_tables():
        regs = registries(iana); B = []
        for name, ents in regs:
            B.append("Definition %s_table : list (string * Z) :=" % name)
            B.append("  [" + ";\n   ".join("(%s, %s)" % (coq_str(n), coq_z(v)) for n, v in ents) + "].")
        B.append("Definition registries : list (string * list (string * Z)) :=")
        B.append("  [" + ";\n   ".join("(%s, %s_table)" % (coq_str(n), n) for n, _ in regs) + "].")
        return B
    L += section("registry tables", s_tables)
    def s_priv():
        pr = privates(iana)
        return ["(* registry, comparison operator of is_private, bound *)",
                "Definition private_ranges : list (string * (string * Z)) :=",
                "  [" + ";\n   ".join("(%s, (%s, %s))" % (coq_str(n), coq_str(op), coq_z(b)) for n, op, b in pr) + "]."]
    L += section("private-use ranges", s_priv)
    def s_ctx():
        B = []
        for nm, src, enum in (("sig_ctx_text", sign, "SignatureContext"), ("mac_ctx_text", mac, "MacContext"),
                              ("enc_ctx_text", enc, "EncryptionContext")):
            arms = ctx_texts(src, enum)
            B.append("Definition %s : list (string * string) :=" % nm)
            B.append("  [" + "; ".join("(%s, %s)" % (coq_str(a), coq_str(b)) for a, b in arms) + "].")
        return B
    L += section("context strings", s_ctx)
    def s_tags():
        tg = tags([sign, mac, enc])
        return ["(* type, registry (\"\" = literal), entry *)",
                "Definition tag_of_type : list (string * (string * string)) :=",
                "  [" + "; ".join("(%s, (%s, %s))" % (coq_str(t), coq_str(r), coq_str(e)) for t, r, e in tg) + "]."]
    L += section("tags", s_tags)
    def s_labels():
        hl = label_consts(header); kl = label_consts(key); cl = claim_consts(cwt); B = []
        for need, got, what in ((7, hl, "header label constants"), (5, kl, "key label constants"), (7, cl, "claim constants")):
            if len(got) < need:
                raise Missing(what)
        for nm, lst in (("header_label_consts", hl), ("key_label_consts", kl), ("claim_consts", cl)):
            B.append("Definition %s : list (string * (string * string)) :=" % nm)
            B.append("  [" + "; ".join("(%s, (%s, %s))" % (coq_str(c), coq_str(r), coq_str(e)) for c, r, e in lst) + "].")
        return B
    L += section("label constants", s_labels)
    def s_arities():
        ar = arities([header, sign, mac, enc, ctx, key, cwt])
        want = {"CoseSignature", "CoseSign", "CoseSign1", "CoseMac", "CoseMac0", "CoseRecipient", "CoseEncrypt",
                "CoseEncrypt0", "PartyInfo", "SuppPubInfo", "CoseKdfContext"}
        have = set(t for t, _, _ in ar)
        if not want <= have:
            raise Missing("arity checks of %s" % sorted(want - have))
        return ["(* type, \"in\" [k..] = len must be one of k.. | \"ge\" [k] = len >= k *)",
                "Definition arity_of_type : list (string * (string * list Z)) :=",
                "  [" + ";\n   ".join("(%s, (%s, [%s]))" % (coq_str(t), coq_str(op), "; ".join(str(x) for x in ns)) for t, op, ns in ar) + "]."]
    L += section("arities", s_arities)
    def s_nest():
        ne = nesting(header)
        if ne is None:
            raise Missing("a usize constant bounding the protected-header nesting")
        return ["Definition protected_nesting_limit : option (nat * string) := Some (%d%%nat, %s)." % (ne[0], coq_str(ne[1]))]
    L += section("nesting budget", s_nest)
    return "\n".join(L).rstrip("\n") + "\n"

def main():
    try:
        text = generate()
    except Missing as e:
        sys.stderr.write("translate.py: construct not found: %s\n" % e)
        return 2
    except Exception as e:  # any parse failure is a broken tie, not a crash
        sys.stderr.write("translate.py: failed: %r\n" % (e,))
        return 2
    for n in NOTES:
        print(n)
    out = os.path.normpath(OUT)
    if "--stdout" in sys.argv:
        sys.stdout.write(text); return 0
    old = open(out).read() if os.path.exists(out) else None
    if old != text:
        with open(out, "w") as f:
            f.write(text)
        print("translate.py: Generated.v updated")
    else:
        print("translate.py: Generated.v unchanged")
    return 0

if __name__ == "__main__":
    sys.exit(main())
