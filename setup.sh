#!/bin/sh
# Offline setup: regenerate tables, build the whole Coq development (full .vo), the extracted
# model driver and the Rust harness.  Everything comes from files on disk.
set -e
cd "$(dirname "$0")"
export CARGO_NET_OFFLINE=true
python3 tools/translate.py || true
cd coq
coq_makefile -f _CoqProject -o Makefile
timeout 3000 make -j16
cd ..
python3 -c "
import sys; sys.path.insert(0,'tools')
import runner
ok,out = runner.build_driver(); print(out[-2000:]); assert ok
ok,out = runner.build_harness(); print(out[-2000:]); assert ok
ok,out = runner.build_harness_std(); print(out[-2000:]); assert ok
"
echo setup done
