//! Descriptions: reflect every coset value into / out of a ciborium `Value` of a fixed shape.
//! Mirrors coq/Model/Desc.v (same shapes, same printer).

use coset::cbor::value::{Integer, Value};
use coset::cwt::{ClaimName, ClaimsSet, Timestamp};
use coset::iana::{self, EnumI64};
use coset::*;

pub fn hex(b: &[u8]) -> String {
    let mut s = String::with_capacity(b.len() * 2);
    for x in b {
        s.push_str(&format!("{:02x}", x));
    }
    s
}

fn show_i128(i: i128) -> String {
    if i < 0 {
        format!("-0x{:x}", -i)
    } else {
        format!("0x{:x}", i)
    }
}

pub fn show_value(v: &Value) -> String {
    match v {
        Value::Integer(i) => format!("i{}", show_i128((*i).into())),
        Value::Bytes(b) => format!("h{}", hex(b)),
        Value::Float(f) => {
            if f.is_nan() {
                "fNaN".to_string()
            } else {
                format!("f0x{:x}", f.to_bits())
            }
        }
        Value::Text(t) => format!("t{}", hex(t.as_bytes())),
        Value::Bool(true) => "T".to_string(),
        Value::Bool(false) => "F".to_string(),
        Value::Null => "N".to_string(),
        Value::Tag(t, v) => format!("g0x{:x}({})", t, show_value(v)),
        Value::Array(a) => format!(
            "[{}]",
            a.iter().map(show_value).collect::<Vec<_>>().join(",")
        ),
        Value::Map(m) => format!(
            "{{{}}}",
            m.iter()
                .map(|(k, v)| format!("{}:{}", show_value(k), show_value(v)))
                .collect::<Vec<_>>()
                .join(",")
        ),
        _ => "?".to_string(),
    }
}

pub fn show_err(e: &CoseError) -> &'static str {
    match e {
        CoseError::DecodeFailed(_) => "err:Decode",
        CoseError::DuplicateMapKey => "err:Dup",
        CoseError::EncodeFailed => "err:Encode",
        CoseError::ExtraneousData => "err:Extra",
        CoseError::OutOfRangeIntegerValue => "err:Range",
        CoseError::UnexpectedItem(_, _) => "err:Unexpected",
        CoseError::UnregisteredIanaValue => "err:Unreg",
        CoseError::UnregisteredIanaNonPrivateValue => "err:UnregNonPriv",
    }
}

// ---------- struct -> desc ----------
fn int(i: i64) -> Value {
    Value::Integer(Integer::from(i))
}
fn arr(v: Vec<Value>) -> Value {
    Value::Array(v)
}
fn d_opt<T>(o: &Option<T>, f: impl Fn(&T) -> Value) -> Value {
    match o {
        Some(x) => f(x),
        None => Value::Null,
    }
}
fn d_bytes(b: &Vec<u8>) -> Value {
    Value::Bytes(b.clone())
}
fn d_text(t: &String) -> Value {
    Value::Text(t.clone())
}
pub fn d_reg<T: EnumI64>(l: &RegisteredLabel<T>) -> Value {
    match l {
        RegisteredLabel::Assigned(a) => arr(vec![int(1), int(a.to_i64())]),
        RegisteredLabel::Text(t) => arr(vec![int(2), d_text(t)]),
    }
}
pub fn d_regp<T: EnumI64 + iana::WithPrivateRange>(l: &RegisteredLabelWithPrivate<T>) -> Value {
    match l {
        RegisteredLabelWithPrivate::PrivateUse(i) => arr(vec![int(0), int(*i)]),
        RegisteredLabelWithPrivate::Assigned(a) => arr(vec![int(1), int(a.to_i64())]),
        RegisteredLabelWithPrivate::Text(t) => arr(vec![int(2), d_text(t)]),
    }
}
pub fn d_label(l: &Label) -> Value {
    match l {
        Label::Int(i) => int(*i),
        Label::Text(t) => d_text(t),
    }
}
fn d_pairs(l: &Vec<(Label, Value)>) -> Value {
    arr(l.iter().map(|(k, v)| arr(vec![d_label(k), v.clone()])).collect())
}
pub fn d_header(h: &Header) -> Value {
    arr(vec![
        d_opt(&h.alg, d_regp),
        arr(h.crit.iter().map(d_reg).collect()),
        d_opt(&h.content_type, d_reg),
        d_bytes(&h.key_id),
        d_bytes(&h.iv),
        d_bytes(&h.partial_iv),
        arr(h.counter_signatures.iter().map(d_signature).collect()),
        d_pairs(&h.rest),
    ])
}
pub fn d_protected(p: &ProtectedHeader) -> Value {
    arr(vec![d_opt(&p.original_data, d_bytes), d_header(&p.header)])
}
pub fn d_signature(s: &CoseSignature) -> Value {
    arr(vec![
        d_protected(&s.protected),
        d_header(&s.unprotected),
        d_bytes(&s.signature),
    ])
}
pub fn d_sign1(m: &CoseSign1) -> Value {
    arr(vec![
        d_protected(&m.protected),
        d_header(&m.unprotected),
        d_opt(&m.payload, d_bytes),
        d_bytes(&m.signature),
    ])
}
pub fn d_sign(m: &CoseSign) -> Value {
    arr(vec![
        d_protected(&m.protected),
        d_header(&m.unprotected),
        d_opt(&m.payload, d_bytes),
        arr(m.signatures.iter().map(d_signature).collect()),
    ])
}
pub fn d_mac0(m: &CoseMac0) -> Value {
    arr(vec![
        d_protected(&m.protected),
        d_header(&m.unprotected),
        d_opt(&m.payload, d_bytes),
        d_bytes(&m.tag),
    ])
}
pub fn d_recipient(r: &CoseRecipient) -> Value {
    arr(vec![
        d_protected(&r.protected),
        d_header(&r.unprotected),
        d_opt(&r.ciphertext, d_bytes),
        arr(r.recipients.iter().map(d_recipient).collect()),
    ])
}
pub fn d_mac(m: &CoseMac) -> Value {
    arr(vec![
        d_protected(&m.protected),
        d_header(&m.unprotected),
        d_opt(&m.payload, d_bytes),
        d_bytes(&m.tag),
        arr(m.recipients.iter().map(d_recipient).collect()),
    ])
}
pub fn d_encrypt(m: &CoseEncrypt) -> Value {
    arr(vec![
        d_protected(&m.protected),
        d_header(&m.unprotected),
        d_opt(&m.ciphertext, d_bytes),
        arr(m.recipients.iter().map(d_recipient).collect()),
    ])
}
pub fn d_encrypt0(m: &CoseEncrypt0) -> Value {
    arr(vec![
        d_protected(&m.protected),
        d_header(&m.unprotected),
        d_opt(&m.ciphertext, d_bytes),
    ])
}
pub fn d_key(k: &CoseKey) -> Value {
    arr(vec![
        d_reg(&k.kty),
        d_bytes(&k.key_id),
        d_opt(&k.alg, d_regp),
        arr(k.key_ops.iter().map(d_reg).collect()),
        d_bytes(&k.base_iv),
        d_pairs(&k.params),
    ])
}
pub fn d_keyset(k: &CoseKeySet) -> Value {
    arr(k.0.iter().map(d_key).collect())
}
fn d_timestamp(t: &Timestamp) -> Value {
    match t {
        Timestamp::WholeSeconds(z) => arr(vec![int(0), int(*z)]),
        Timestamp::FractionalSeconds(f) => arr(vec![int(1), Value::Float(*f)]),
    }
}
pub fn d_claims(c: &ClaimsSet) -> Value {
    arr(vec![
        d_opt(&c.issuer, d_text),
        d_opt(&c.subject, d_text),
        d_opt(&c.audience, d_text),
        d_opt(&c.expiration_time, d_timestamp),
        d_opt(&c.not_before, d_timestamp),
        d_opt(&c.issued_at, d_timestamp),
        d_opt(&c.cwt_id, d_bytes),
        arr(c
            .rest
            .iter()
            .map(|(k, v)| arr(vec![d_regp(k), v.clone()]))
            .collect()),
    ])
}
fn d_nonce(n: &Nonce) -> Value {
    match n {
        Nonce::Bytes(b) => d_bytes(b),
        Nonce::Integer(i) => int(*i),
    }
}
pub fn d_party(p: &PartyInfo) -> Value {
    arr(vec![
        d_opt(&p.identity, d_bytes),
        d_opt(&p.nonce, d_nonce),
        d_opt(&p.other, d_bytes),
    ])
}
pub fn d_supp(s: &SuppPubInfo) -> Value {
    arr(vec![
        Value::Integer(Integer::from(s.key_data_length)),
        d_protected(&s.protected),
        d_opt(&s.other, d_bytes),
    ])
}

// ---------- desc -> struct ----------
pub type R<T> = Result<T, String>;
fn bad<T>(what: &str) -> R<T> {
    Err(format!("baddesc:{}", what))
}
fn o_opt<T>(v: &Value, f: impl Fn(&Value) -> R<T>) -> R<Option<T>> {
    match v {
        Value::Null => Ok(None),
        _ => Ok(Some(f(v)?)),
    }
}
pub fn o_bytes(v: &Value) -> R<Vec<u8>> {
    match v {
        Value::Bytes(b) => Ok(b.clone()),
        _ => bad("bytes"),
    }
}
pub fn o_text(v: &Value) -> R<String> {
    match v {
        Value::Text(t) => Ok(t.clone()),
        _ => bad("text"),
    }
}
pub fn o_i64(v: &Value) -> R<i64> {
    match v {
        Value::Integer(i) => i64::try_from(*i).map_err(|_| "baddesc:i64".to_string()),
        _ => bad("int"),
    }
}
pub fn o_bool(v: &Value) -> R<bool> {
    match v {
        Value::Bool(b) => Ok(*b),
        _ => bad("bool"),
    }
}
fn o_arr<'a>(v: &'a Value, n: usize) -> R<&'a Vec<Value>> {
    match v {
        Value::Array(a) if a.len() == n => Ok(a),
        _ => bad("array"),
    }
}
pub fn o_list<T>(v: &Value, f: impl Fn(&Value) -> R<T>) -> R<Vec<T>> {
    match v {
        Value::Array(a) => a.iter().map(f).collect(),
        _ => bad("list"),
    }
}
/// An enum constant: the description must name a registered value (the harness cannot build
/// an unregistered `Assigned`).
pub fn o_enum<T: EnumI64>(i: i64) -> R<T> {
    T::from_i64(i).ok_or_else(|| "baddesc:unregistered".to_string())
}
pub fn o_reg<T: EnumI64>(v: &Value) -> R<RegisteredLabel<T>> {
    let a = o_arr(v, 2)?;
    match o_i64(&a[0])? {
        1 => Ok(RegisteredLabel::Assigned(o_enum(o_i64(&a[1])?)?)),
        2 => Ok(RegisteredLabel::Text(o_text(&a[1])?)),
        _ => bad("reg"),
    }
}
pub fn o_regp<T: EnumI64 + iana::WithPrivateRange>(v: &Value) -> R<RegisteredLabelWithPrivate<T>> {
    let a = o_arr(v, 2)?;
    match o_i64(&a[0])? {
        0 => Ok(RegisteredLabelWithPrivate::PrivateUse(o_i64(&a[1])?)),
        1 => Ok(RegisteredLabelWithPrivate::Assigned(o_enum(o_i64(&a[1])?)?)),
        2 => Ok(RegisteredLabelWithPrivate::Text(o_text(&a[1])?)),
        _ => bad("regp"),
    }
}
pub fn o_label(v: &Value) -> R<Label> {
    match v {
        Value::Integer(_) => Ok(Label::Int(o_i64(v)?)),
        Value::Text(t) => Ok(Label::Text(t.clone())),
        _ => bad("label"),
    }
}
fn o_pair(v: &Value) -> R<(Label, Value)> {
    let a = o_arr(v, 2)?;
    Ok((o_label(&a[0])?, a[1].clone()))
}
pub fn o_header(v: &Value) -> R<Header> {
    let a = o_arr(v, 8)?;
    Ok(Header {
        alg: o_opt(&a[0], o_regp)?,
        crit: o_list(&a[1], o_reg)?,
        content_type: o_opt(&a[2], o_reg)?,
        key_id: o_bytes(&a[3])?,
        iv: o_bytes(&a[4])?,
        partial_iv: o_bytes(&a[5])?,
        counter_signatures: o_list(&a[6], o_signature)?,
        rest: o_list(&a[7], o_pair)?,
    })
}
pub fn o_protected(v: &Value) -> R<ProtectedHeader> {
    let a = o_arr(v, 2)?;
    Ok(ProtectedHeader {
        original_data: o_opt(&a[0], o_bytes)?,
        header: o_header(&a[1])?,
    })
}
pub fn o_signature(v: &Value) -> R<CoseSignature> {
    let a = o_arr(v, 3)?;
    Ok(CoseSignature {
        protected: o_protected(&a[0])?,
        unprotected: o_header(&a[1])?,
        signature: o_bytes(&a[2])?,
    })
}
pub fn o_sign1(v: &Value) -> R<CoseSign1> {
    let a = o_arr(v, 4)?;
    Ok(CoseSign1 {
        protected: o_protected(&a[0])?,
        unprotected: o_header(&a[1])?,
        payload: o_opt(&a[2], o_bytes)?,
        signature: o_bytes(&a[3])?,
    })
}
pub fn o_sign(v: &Value) -> R<CoseSign> {
    let a = o_arr(v, 4)?;
    Ok(CoseSign {
        protected: o_protected(&a[0])?,
        unprotected: o_header(&a[1])?,
        payload: o_opt(&a[2], o_bytes)?,
        signatures: o_list(&a[3], o_signature)?,
    })
}
pub fn o_mac0(v: &Value) -> R<CoseMac0> {
    let a = o_arr(v, 4)?;
    Ok(CoseMac0 {
        protected: o_protected(&a[0])?,
        unprotected: o_header(&a[1])?,
        payload: o_opt(&a[2], o_bytes)?,
        tag: o_bytes(&a[3])?,
    })
}
pub fn o_recipient(v: &Value) -> R<CoseRecipient> {
    let a = o_arr(v, 4)?;
    Ok(CoseRecipient {
        protected: o_protected(&a[0])?,
        unprotected: o_header(&a[1])?,
        ciphertext: o_opt(&a[2], o_bytes)?,
        recipients: o_list(&a[3], o_recipient)?,
    })
}
pub fn o_mac(v: &Value) -> R<CoseMac> {
    let a = o_arr(v, 5)?;
    Ok(CoseMac {
        protected: o_protected(&a[0])?,
        unprotected: o_header(&a[1])?,
        payload: o_opt(&a[2], o_bytes)?,
        tag: o_bytes(&a[3])?,
        recipients: o_list(&a[4], o_recipient)?,
    })
}
pub fn o_encrypt(v: &Value) -> R<CoseEncrypt> {
    let a = o_arr(v, 4)?;
    Ok(CoseEncrypt {
        protected: o_protected(&a[0])?,
        unprotected: o_header(&a[1])?,
        ciphertext: o_opt(&a[2], o_bytes)?,
        recipients: o_list(&a[3], o_recipient)?,
    })
}
pub fn o_encrypt0(v: &Value) -> R<CoseEncrypt0> {
    let a = o_arr(v, 3)?;
    Ok(CoseEncrypt0 {
        protected: o_protected(&a[0])?,
        unprotected: o_header(&a[1])?,
        ciphertext: o_opt(&a[2], o_bytes)?,
    })
}
pub fn o_key(v: &Value) -> R<CoseKey> {
    let a = o_arr(v, 6)?;
    Ok(CoseKey {
        kty: o_reg(&a[0])?,
        key_id: o_bytes(&a[1])?,
        alg: o_opt(&a[2], o_regp)?,
        key_ops: o_list(&a[3], o_reg)?.into_iter().collect(),
        base_iv: o_bytes(&a[4])?,
        params: o_list(&a[5], o_pair)?,
    })
}
pub fn o_keyset(v: &Value) -> R<CoseKeySet> {
    Ok(CoseKeySet(o_list(v, o_key)?))
}
pub fn o_timestamp(v: &Value) -> R<Timestamp> {
    let a = o_arr(v, 2)?;
    match (o_i64(&a[0])?, &a[1]) {
        (0, Value::Integer(_)) => Ok(Timestamp::WholeSeconds(o_i64(&a[1])?)),
        (1, Value::Float(f)) => Ok(Timestamp::FractionalSeconds(*f)),
        _ => bad("timestamp"),
    }
}
fn o_claim_pair(v: &Value) -> R<(ClaimName, Value)> {
    let a = o_arr(v, 2)?;
    Ok((o_regp(&a[0])?, a[1].clone()))
}
pub fn o_claims(v: &Value) -> R<ClaimsSet> {
    let a = o_arr(v, 8)?;
    Ok(ClaimsSet {
        issuer: o_opt(&a[0], o_text)?,
        subject: o_opt(&a[1], o_text)?,
        audience: o_opt(&a[2], o_text)?,
        expiration_time: o_opt(&a[3], o_timestamp)?,
        not_before: o_opt(&a[4], o_timestamp)?,
        issued_at: o_opt(&a[5], o_timestamp)?,
        cwt_id: o_opt(&a[6], o_bytes)?,
        rest: o_list(&a[7], o_claim_pair)?,
    })
}
pub fn o_nonce(v: &Value) -> R<Nonce> {
    match v {
        Value::Bytes(b) => Ok(Nonce::Bytes(b.clone())),
        Value::Integer(_) => Ok(Nonce::Integer(o_i64(v)?)),
        _ => bad("nonce"),
    }
}
pub fn o_party(v: &Value) -> R<PartyInfo> {
    let a = o_arr(v, 3)?;
    Ok(PartyInfo {
        identity: o_opt(&a[0], o_bytes)?,
        nonce: o_opt(&a[1], o_nonce)?,
        other: o_opt(&a[2], o_bytes)?,
    })
}
pub fn o_supp(v: &Value) -> R<SuppPubInfo> {
    let a = o_arr(v, 3)?;
    let len = match &a[0] {
        Value::Integer(i) => u64::try_from(*i).map_err(|_| "baddesc:u64".to_string())?,
        _ => return bad("len"),
    };
    Ok(SuppPubInfo {
        key_data_length: len,
        protected: o_protected(&a[1])?,
        other: o_opt(&a[2], o_bytes)?,
    })
}
/// KDF context fields are private: build it through its builder.  The algorithm must be an
/// `Assigned` one (the builder offers nothing else).
pub fn o_kdf(v: &Value) -> R<CoseKdfContext> {
    let a = o_arr(v, 5)?;
    let alg: Algorithm = o_regp(&a[0])?;
    let mut b = CoseKdfContextBuilder::new()
        .party_u_info(o_party(&a[1])?)
        .party_v_info(o_party(&a[2])?)
        .supp_pub_info(o_supp(&a[3])?);
    match alg {
        RegisteredLabelWithPrivate::Assigned(x) => b = b.algorithm(x),
        _ => return bad("kdf-alg"),
    }
    for p in o_list(&a[4], o_bytes)? {
        b = b.add_supp_priv_info(p);
    }
    Ok(b.build())
}
