//! Builder call sequences (mirrors coq/Model/Builders.v and the o_*_op parsers of Dispatch.v).
use crate::desc::*;
use crate::{enc_ctx, record2, Out, Ty};
use coset::cbor::value::Value;
use coset::cwt::ClaimsSetBuilder;
use coset::*;

fn op_parts(v: &Value) -> R<(String, &[Value])> {
    match v {
        Value::Array(a) if !a.is_empty() => Ok((o_text(&a[0])?, &a[1..])),
        _ => Err("baddesc:op".to_string()),
    }
}
fn n(args: &[Value], k: usize) -> R<()> {
    if args.len() == k {
        Ok(())
    } else {
        Err("baddesc:op-arity".to_string())
    }
}

/// closure spec [mode, k]: mode 0 -> k ++ input; mode 1 -> fails
fn closure_spec(v: &Value) -> R<(i64, Vec<u8>)> {
    match v {
        Value::Array(a) if a.len() == 2 => Ok((o_i64(&a[0])?, o_bytes(&a[1])?)),
        _ => Err("baddesc:closure".to_string()),
    }
}
fn f1(spec: &(i64, Vec<u8>), x: &[u8]) -> Result<Vec<u8>, ()> {
    if spec.0 == 0 {
        let mut r = spec.1.clone();
        r.extend_from_slice(x);
        Ok(r)
    } else {
        Err(())
    }
}
fn f2(spec: &(i64, Vec<u8>), x: &[u8], y: &[u8]) -> Result<Vec<u8>, ()> {
    if spec.0 == 0 {
        let mut r = spec.1.clone();
        r.push((x.len() % 256) as u8);
        r.extend_from_slice(x);
        r.extend_from_slice(y);
        Ok(r)
    } else {
        Err(())
    }
}

/// Outcome of a builder history: built value, or `fail` when a fallible call returned Err.
pub enum Built<T> {
    Done(T),
    Fail,
}

fn build_header(ops: &Value) -> R<Built<Header>> {
    let mut b = HeaderBuilder::new();
    for op in o_list(ops, |v| Ok(v.clone()))? {
        let (name, a) = op_parts(&op)?;
        b = match name.as_str() {
            "key_id" => { n(a, 1)?; b.key_id(o_bytes(&a[0])?) }
            "algorithm" => { n(a, 1)?; b.algorithm(o_enum(o_i64(&a[0])?)?) }
            "add_critical" => { n(a, 1)?; b.add_critical(o_enum(o_i64(&a[0])?)?) }
            "add_critical_label" => { n(a, 1)?; b.add_critical_label(o_reg(&a[0])?) }
            "content_format" => { n(a, 1)?; b.content_format(o_enum(o_i64(&a[0])?)?) }
            "content_type" => { n(a, 1)?; b.content_type(o_text(&a[0])?) }
            "iv" => { n(a, 1)?; b.iv(o_bytes(&a[0])?) }
            "partial_iv" => { n(a, 1)?; b.partial_iv(o_bytes(&a[0])?) }
            "add_counter_signature" => { n(a, 1)?; b.add_counter_signature(o_signature(&a[0])?) }
            "value" => { n(a, 2)?; b.value(o_i64(&a[0])?, a[1].clone()) }
            "text_value" => { n(a, 2)?; b.text_value(o_text(&a[0])?, a[1].clone()) }
            _ => return Err("baddesc:header-op".into()),
        };
    }
    Ok(Built::Done(b.build()))
}

fn build_signature(ops: &Value) -> R<Built<CoseSignature>> {
    let mut b = CoseSignatureBuilder::new();
    for op in o_list(ops, |v| Ok(v.clone()))? {
        let (name, a) = op_parts(&op)?;
        n(a, 1)?;
        b = match name.as_str() {
            "protected" => b.protected(o_header(&a[0])?),
            "unprotected" => b.unprotected(o_header(&a[0])?),
            "signature" => b.signature(o_bytes(&a[0])?),
            _ => return Err("baddesc:signature-op".into()),
        };
    }
    Ok(Built::Done(b.build()))
}

fn build_sign1(ops: &Value) -> R<Built<CoseSign1>> {
    let mut b = CoseSign1Builder::new();
    for op in o_list(ops, |v| Ok(v.clone()))? {
        let (name, a) = op_parts(&op)?;
        b = match name.as_str() {
            "protected" => { n(a, 1)?; b.protected(o_header(&a[0])?) }
            "unprotected" => { n(a, 1)?; b.unprotected(o_header(&a[0])?) }
            "signature" => { n(a, 1)?; b.signature(o_bytes(&a[0])?) }
            "payload" => { n(a, 1)?; b.payload(o_bytes(&a[0])?) }
            "create_signature" => {
                n(a, 2)?;
                let s = closure_spec(&a[1])?;
                b.create_signature(&o_bytes(&a[0])?, |x| f1(&s, x).unwrap_or_default())
            }
            "create_detached_signature" => {
                n(a, 3)?;
                let s = closure_spec(&a[2])?;
                b.create_detached_signature(&o_bytes(&a[0])?, &o_bytes(&a[1])?, |x| f1(&s, x).unwrap_or_default())
            }
            "try_create_signature" => {
                n(a, 2)?;
                let s = closure_spec(&a[1])?;
                match b.try_create_signature(&o_bytes(&a[0])?, |x| f1(&s, x)) {
                    Ok(b) => b,
                    Err(()) => return Ok(Built::Fail),
                }
            }
            "try_create_detached_signature" => {
                n(a, 3)?;
                let s = closure_spec(&a[2])?;
                match b.try_create_detached_signature(&o_bytes(&a[0])?, &o_bytes(&a[1])?, |x| f1(&s, x)) {
                    Ok(b) => b,
                    Err(()) => return Ok(Built::Fail),
                }
            }
            _ => return Err("baddesc:sign1-op".into()),
        };
    }
    Ok(Built::Done(b.build()))
}

fn build_sign(ops: &Value) -> R<Built<CoseSign>> {
    let mut b = CoseSignBuilder::new();
    for op in o_list(ops, |v| Ok(v.clone()))? {
        let (name, a) = op_parts(&op)?;
        b = match name.as_str() {
            "protected" => { n(a, 1)?; b.protected(o_header(&a[0])?) }
            "unprotected" => { n(a, 1)?; b.unprotected(o_header(&a[0])?) }
            "payload" => { n(a, 1)?; b.payload(o_bytes(&a[0])?) }
            "add_signature" => { n(a, 1)?; b.add_signature(o_signature(&a[0])?) }
            "add_created_signature" => {
                n(a, 3)?;
                let s = closure_spec(&a[2])?;
                b.add_created_signature(o_signature(&a[0])?, &o_bytes(&a[1])?, |x| f1(&s, x).unwrap_or_default())
            }
            "add_detached_signature" => {
                n(a, 4)?;
                let s = closure_spec(&a[3])?;
                b.add_detached_signature(o_signature(&a[0])?, &o_bytes(&a[1])?, &o_bytes(&a[2])?, |x| f1(&s, x).unwrap_or_default())
            }
            "try_add_created_signature" => {
                n(a, 3)?;
                let s = closure_spec(&a[2])?;
                match b.try_add_created_signature(o_signature(&a[0])?, &o_bytes(&a[1])?, |x| f1(&s, x)) {
                    Ok(b) => b,
                    Err(()) => return Ok(Built::Fail),
                }
            }
            "try_add_detached_signature" => {
                n(a, 4)?;
                let s = closure_spec(&a[3])?;
                match b.try_add_detached_signature(o_signature(&a[0])?, &o_bytes(&a[1])?, &o_bytes(&a[2])?, |x| f1(&s, x)) {
                    Ok(b) => b,
                    Err(()) => return Ok(Built::Fail),
                }
            }
            _ => return Err("baddesc:sign-op".into()),
        };
    }
    Ok(Built::Done(b.build()))
}

fn build_mac0(ops: &Value) -> R<Built<CoseMac0>> {
    let mut b = CoseMac0Builder::new();
    for op in o_list(ops, |v| Ok(v.clone()))? {
        let (name, a) = op_parts(&op)?;
        b = match name.as_str() {
            "protected" => { n(a, 1)?; b.protected(o_header(&a[0])?) }
            "unprotected" => { n(a, 1)?; b.unprotected(o_header(&a[0])?) }
            "tag" => { n(a, 1)?; b.tag(o_bytes(&a[0])?) }
            "payload" => { n(a, 1)?; b.payload(o_bytes(&a[0])?) }
            "create_tag" => {
                n(a, 2)?;
                let s = closure_spec(&a[1])?;
                b.create_tag(&o_bytes(&a[0])?, |x| f1(&s, x).unwrap_or_default())
            }
            "try_create_tag" => {
                n(a, 2)?;
                let s = closure_spec(&a[1])?;
                match b.try_create_tag(&o_bytes(&a[0])?, |x| f1(&s, x)) {
                    Ok(b) => b,
                    Err(()) => return Ok(Built::Fail),
                }
            }
            _ => return Err("baddesc:mac0-op".into()),
        };
    }
    Ok(Built::Done(b.build()))
}

fn build_mac(ops: &Value) -> R<Built<CoseMac>> {
    let mut b = CoseMacBuilder::new();
    for op in o_list(ops, |v| Ok(v.clone()))? {
        let (name, a) = op_parts(&op)?;
        b = match name.as_str() {
            "protected" => { n(a, 1)?; b.protected(o_header(&a[0])?) }
            "unprotected" => { n(a, 1)?; b.unprotected(o_header(&a[0])?) }
            "tag" => { n(a, 1)?; b.tag(o_bytes(&a[0])?) }
            "payload" => { n(a, 1)?; b.payload(o_bytes(&a[0])?) }
            "add_recipient" => { n(a, 1)?; b.add_recipient(o_recipient(&a[0])?) }
            "create_tag" => {
                n(a, 2)?;
                let s = closure_spec(&a[1])?;
                b.create_tag(&o_bytes(&a[0])?, |x| f1(&s, x).unwrap_or_default())
            }
            "try_create_tag" => {
                n(a, 2)?;
                let s = closure_spec(&a[1])?;
                match b.try_create_tag(&o_bytes(&a[0])?, |x| f1(&s, x)) {
                    Ok(b) => b,
                    Err(()) => return Ok(Built::Fail),
                }
            }
            _ => return Err("baddesc:mac-op".into()),
        };
    }
    Ok(Built::Done(b.build()))
}

fn ctx_of(v: &Value) -> R<EncryptionContext> {
    enc_ctx(&o_text(v)?)
}

fn build_recipient(ops: &Value) -> R<Built<CoseRecipient>> {
    let mut b = CoseRecipientBuilder::new();
    for op in o_list(ops, |v| Ok(v.clone()))? {
        let (name, a) = op_parts(&op)?;
        b = match name.as_str() {
            "protected" => { n(a, 1)?; b.protected(o_header(&a[0])?) }
            "unprotected" => { n(a, 1)?; b.unprotected(o_header(&a[0])?) }
            "ciphertext" => { n(a, 1)?; b.ciphertext(o_bytes(&a[0])?) }
            "add_recipient" => { n(a, 1)?; b.add_recipient(o_recipient(&a[0])?) }
            "create_ciphertext" => {
                n(a, 4)?;
                let s = closure_spec(&a[3])?;
                b.create_ciphertext(ctx_of(&a[0])?, &o_bytes(&a[1])?, &o_bytes(&a[2])?, |x, y| f2(&s, x, y).unwrap_or_default())
            }
            "try_create_ciphertext" => {
                n(a, 4)?;
                let s = closure_spec(&a[3])?;
                match b.try_create_ciphertext(ctx_of(&a[0])?, &o_bytes(&a[1])?, &o_bytes(&a[2])?, |x, y| f2(&s, x, y)) {
                    Ok(b) => b,
                    Err(()) => return Ok(Built::Fail),
                }
            }
            _ => return Err("baddesc:recipient-op".into()),
        };
    }
    Ok(Built::Done(b.build()))
}

fn build_encrypt(ops: &Value) -> R<Built<CoseEncrypt>> {
    let mut b = CoseEncryptBuilder::new();
    for op in o_list(ops, |v| Ok(v.clone()))? {
        let (name, a) = op_parts(&op)?;
        b = match name.as_str() {
            "protected" => { n(a, 1)?; b.protected(o_header(&a[0])?) }
            "unprotected" => { n(a, 1)?; b.unprotected(o_header(&a[0])?) }
            "ciphertext" => { n(a, 1)?; b.ciphertext(o_bytes(&a[0])?) }
            "add_recipient" => { n(a, 1)?; b.add_recipient(o_recipient(&a[0])?) }
            "create_ciphertext" => {
                n(a, 3)?;
                let s = closure_spec(&a[2])?;
                b.create_ciphertext(&o_bytes(&a[0])?, &o_bytes(&a[1])?, |x, y| f2(&s, x, y).unwrap_or_default())
            }
            "try_create_ciphertext" => {
                n(a, 3)?;
                let s = closure_spec(&a[2])?;
                match b.try_create_ciphertext(&o_bytes(&a[0])?, &o_bytes(&a[1])?, |x, y| f2(&s, x, y)) {
                    Ok(b) => b,
                    Err(()) => return Ok(Built::Fail),
                }
            }
            _ => return Err("baddesc:encrypt-op".into()),
        };
    }
    Ok(Built::Done(b.build()))
}

fn build_encrypt0(ops: &Value) -> R<Built<CoseEncrypt0>> {
    let mut b = CoseEncrypt0Builder::new();
    for op in o_list(ops, |v| Ok(v.clone()))? {
        let (name, a) = op_parts(&op)?;
        b = match name.as_str() {
            "protected" => { n(a, 1)?; b.protected(o_header(&a[0])?) }
            "unprotected" => { n(a, 1)?; b.unprotected(o_header(&a[0])?) }
            "ciphertext" => { n(a, 1)?; b.ciphertext(o_bytes(&a[0])?) }
            "create_ciphertext" => {
                n(a, 3)?;
                let s = closure_spec(&a[2])?;
                b.create_ciphertext(&o_bytes(&a[0])?, &o_bytes(&a[1])?, |x, y| f2(&s, x, y).unwrap_or_default())
            }
            "try_create_ciphertext" => {
                n(a, 3)?;
                let s = closure_spec(&a[2])?;
                match b.try_create_ciphertext(&o_bytes(&a[0])?, &o_bytes(&a[1])?, |x, y| f2(&s, x, y)) {
                    Ok(b) => b,
                    Err(()) => return Ok(Built::Fail),
                }
            }
            _ => return Err("baddesc:encrypt0-op".into()),
        };
    }
    Ok(Built::Done(b.build()))
}

fn build_key(ops: &Value) -> R<Built<CoseKey>> {
    let mut b = CoseKeyBuilder::new();
    for op in o_list(ops, |v| Ok(v.clone()))? {
        let (name, a) = op_parts(&op)?;
        b = match name.as_str() {
            "new" => { n(a, 0)?; CoseKeyBuilder::new() }
            "new_okp_key" => { n(a, 0)?; CoseKeyBuilder::new_okp_key() }
            "new_symmetric_key" => { n(a, 1)?; CoseKeyBuilder::new_symmetric_key(o_bytes(&a[0])?) }
            "new_ec2_pub_key" => { n(a, 3)?; CoseKeyBuilder::new_ec2_pub_key(o_enum(o_i64(&a[0])?)?, o_bytes(&a[1])?, o_bytes(&a[2])?) }
            "new_ec2_pub_key_y_sign" => { n(a, 3)?; CoseKeyBuilder::new_ec2_pub_key_y_sign(o_enum(o_i64(&a[0])?)?, o_bytes(&a[1])?, o_bool(&a[2])?) }
            "new_ec2_priv_key" => { n(a, 4)?; CoseKeyBuilder::new_ec2_priv_key(o_enum(o_i64(&a[0])?)?, o_bytes(&a[1])?, o_bytes(&a[2])?, o_bytes(&a[3])?) }
            "kty" => { n(a, 1)?; b.kty(o_reg(&a[0])?) }
            "key_id" => { n(a, 1)?; b.key_id(o_bytes(&a[0])?) }
            "base_iv" => { n(a, 1)?; b.base_iv(o_bytes(&a[0])?) }
            "key_type" => { n(a, 1)?; b.key_type(o_enum(o_i64(&a[0])?)?) }
            "algorithm" => { n(a, 1)?; b.algorithm(o_enum(o_i64(&a[0])?)?) }
            "add_key_op" => { n(a, 1)?; b.add_key_op(o_enum(o_i64(&a[0])?)?) }
            "param" => { n(a, 2)?; b.param(o_i64(&a[0])?, a[1].clone()) }
            _ => return Err("baddesc:key-op".into()),
        };
    }
    Ok(Built::Done(b.build()))
}

fn build_claims(ops: &Value) -> R<Built<cwt::ClaimsSet>> {
    let mut b = ClaimsSetBuilder::new();
    for op in o_list(ops, |v| Ok(v.clone()))? {
        let (name, a) = op_parts(&op)?;
        b = match name.as_str() {
            "issuer" => { n(a, 1)?; b.issuer(o_text(&a[0])?) }
            "subject" => { n(a, 1)?; b.subject(o_text(&a[0])?) }
            "audience" => { n(a, 1)?; b.audience(o_text(&a[0])?) }
            "expiration_time" => { n(a, 1)?; b.expiration_time(o_timestamp(&a[0])?) }
            "not_before" => { n(a, 1)?; b.not_before(o_timestamp(&a[0])?) }
            "issued_at" => { n(a, 1)?; b.issued_at(o_timestamp(&a[0])?) }
            "cwt_id" => { n(a, 1)?; b.cwt_id(o_bytes(&a[0])?) }
            "claim" => { n(a, 2)?; b.claim(o_enum(o_i64(&a[0])?)?, a[1].clone()) }
            "text_claim" => { n(a, 2)?; b.text_claim(o_text(&a[0])?, a[1].clone()) }
            "private_claim" => { n(a, 2)?; b.private_claim(o_i64(&a[0])?, a[1].clone()) }
            _ => return Err("baddesc:claims-op".into()),
        };
    }
    Ok(Built::Done(b.build()))
}

fn build_party(ops: &Value) -> R<Built<PartyInfo>> {
    let mut b = PartyInfoBuilder::new();
    for op in o_list(ops, |v| Ok(v.clone()))? {
        let (name, a) = op_parts(&op)?;
        n(a, 1)?;
        b = match name.as_str() {
            "identity" => b.identity(o_bytes(&a[0])?),
            "nonce" => b.nonce(o_nonce(&a[0])?),
            "other" => b.other(o_bytes(&a[0])?),
            _ => return Err("baddesc:party-op".into()),
        };
    }
    Ok(Built::Done(b.build()))
}

fn build_supp(ops: &Value) -> R<Built<SuppPubInfo>> {
    let mut b = SuppPubInfoBuilder::new();
    for op in o_list(ops, |v| Ok(v.clone()))? {
        let (name, a) = op_parts(&op)?;
        n(a, 1)?;
        b = match name.as_str() {
            "key_data_length" => match &a[0] {
                Value::Integer(i) => b.key_data_length(u64::try_from(*i).map_err(|_| "baddesc:u64".to_string())?),
                _ => return Err("baddesc:len".into()),
            },
            "protected" => b.protected(o_header(&a[0])?),
            "other" => b.other(o_bytes(&a[0])?),
            _ => return Err("baddesc:supp-op".into()),
        };
    }
    Ok(Built::Done(b.build()))
}

fn build_kdf(ops: &Value) -> R<Built<CoseKdfContext>> {
    let mut b = CoseKdfContextBuilder::new();
    for op in o_list(ops, |v| Ok(v.clone()))? {
        let (name, a) = op_parts(&op)?;
        n(a, 1)?;
        b = match name.as_str() {
            "party_u_info" => b.party_u_info(o_party(&a[0])?),
            "party_v_info" => b.party_v_info(o_party(&a[0])?),
            "supp_pub_info" => b.supp_pub_info(o_supp(&a[0])?),
            "algorithm" => b.algorithm(o_enum(o_i64(&a[0])?)?),
            "add_supp_priv_info" => b.add_supp_priv_info(o_bytes(&a[0])?),
            _ => return Err("baddesc:kdf-op".into()),
        };
    }
    Ok(Built::Done(b.build()))
}

fn shown<T: Ty>(r: R<Built<T>>) -> Out {
    match r? {
        Built::Done(x) => Ok(format!("ok {}", x.shown())),
        Built::Fail => Ok("fail".to_string()),
    }
}

pub fn op_build(bt: &str, ops: &Value) -> Out {
    match bt {
        "Header" => shown(build_header(ops)),
        "CoseSignature" => shown(build_signature(ops)),
        "CoseSign1" => shown(build_sign1(ops)),
        "CoseSign" => shown(build_sign(ops)),
        "CoseMac0" => shown(build_mac0(ops)),
        "CoseMac" => shown(build_mac(ops)),
        "CoseRecipient" => shown(build_recipient(ops)),
        "CoseEncrypt" => shown(build_encrypt(ops)),
        "CoseEncrypt0" => shown(build_encrypt0(ops)),
        "CoseKey" => shown(build_key(ops)),
        "ClaimsSet" => shown(build_claims(ops)),
        "PartyInfo" => shown(build_party(ops)),
        "SuppPubInfo" => shown(build_supp(ops)),
        "CoseKdfContext" => shown(build_kdf(ops)),
        _ => Err("unknown builder".into()),
    }
}

fn wire<T: Ty>(m: T, tagged: bool) -> Result<(Vec<u8>, T), String> {
    let b = if tagged {
        m.enctag().ok_or("not taggable")?
    } else {
        m.enc()
    };
    let b = match b {
        Ok(b) => b,
        Err(e) => return Err(format!("wire {}", show_err(&e))),
    };
    let y = if tagged {
        T::dectag(&b).ok_or("not taggable")?
    } else {
        T::dec(&b)
    };
    match y {
        Ok(y) => Ok((b, y)),
        Err(e) => Err(format!("wire {}", show_err(&e))),
    }
}

fn which_of(b: &[u8]) -> usize {
    if b.len() == 1 {
        b[0] as usize
    } else {
        0
    }
}

/// build, serialise (tagged or not), parse back, call the verify / decrypt helper
pub fn op_buildrt(bt: &str, ops: &Value, tagged: bool, a: &[Vec<u8>]) -> Out {
    macro_rules! built {
        ($e:expr) => {
            match $e? {
                Built::Done(m) => match wire(m, tagged) {
                    Ok(x) => x,
                    Err(s) => return Ok(s),
                },
                Built::Fail => return Ok("fail".to_string()),
            }
        };
    }
    // phase 1: build + wire (a panic here is the whole observation); phase 2: the helper call
    enum M { S1(CoseSign1), S(CoseSign), M0(CoseMac0), Mc(CoseMac), E(CoseEncrypt), E0(CoseEncrypt0), R(CoseRecipient) }
    let (b, y) = match bt {
        "CoseSign1" => { let (b, y) = built!(build_sign1(ops)); (b, M::S1(y)) }
        "CoseSign" => { let (b, y) = built!(build_sign(ops)); (b, M::S(y)) }
        "CoseMac0" => { let (b, y) = built!(build_mac0(ops)); (b, M::M0(y)) }
        "CoseMac" => { let (b, y) = built!(build_mac(ops)); (b, M::Mc(y)) }
        "CoseEncrypt" => { let (b, y) = built!(build_encrypt(ops)); (b, M::E(y)) }
        "CoseEncrypt0" => { let (b, y) = built!(build_encrypt0(ops)); (b, M::E0(y)) }
        "CoseRecipient" => { let (b, y) = built!(build_recipient(ops)); (b, M::R(y)) }
        _ => return Err("unknown buildrt type".into()),
    };
    let a2: Vec<Vec<u8>> = a.to_vec();
    let r = std::panic::catch_unwind(std::panic::AssertUnwindSafe(move || -> Result<String, String> {
        let a = &a2;
        let mut rec = String::new();
        let mut grab = |s: &[u8], d: &[u8]| -> Result<(), ()> {
            rec = record2(s, d).unwrap();
            Ok(())
        };
        match y {
            M::S1(y) => match a.len() {
                1 => y.verify_signature(&a[0], &mut grab).unwrap(),
                2 => y.verify_detached_signature(&a[0], &a[1], &mut grab).unwrap(),
                _ => return Err("buildrt args".into()),
            },
            M::S(y) => match a.len() {
                2 => y.verify_signature(which_of(&a[0]), &a[1], &mut grab).unwrap(),
                3 => y.verify_detached_signature(which_of(&a[0]), &a[1], &a[2], &mut grab).unwrap(),
                _ => return Err("buildrt args".into()),
            },
            M::M0(y) => { if a.len() != 1 { return Err("buildrt args".into()); } y.verify_tag(&a[0], &mut grab).unwrap() }
            M::Mc(y) => { if a.len() != 1 { return Err("buildrt args".into()); } y.verify_tag(&a[0], &mut grab).unwrap() }
            M::E(y) => {
                if a.len() != 1 { return Err("buildrt args".into()); }
                let r: Result<Vec<u8>, ()> = y.decrypt(&a[0], |c, d| { grab(c, d)?; Ok(vec![]) });
                r.unwrap();
            }
            M::E0(y) => {
                if a.len() != 1 { return Err("buildrt args".into()); }
                let r: Result<Vec<u8>, ()> = y.decrypt(&a[0], |c, d| { grab(c, d)?; Ok(vec![]) });
                r.unwrap();
            }
            M::R(y) => {
                if a.len() != 2 { return Err("buildrt args".into()); }
                let ctx = enc_ctx(std::str::from_utf8(&a[0]).map_err(|_| "ctx")?)?;
                let r: Result<Vec<u8>, ()> = y.decrypt(ctx, &a[1], |c, d| { grab(c, d)?; Ok(vec![]) });
                r.unwrap();
            }
        }
        Ok(rec)
    }));
    match r {
        Ok(Ok(rec)) => Ok(format!("ok {} ok {}", hex(&b), rec)),
        Ok(Err(e)) => Err(e),
        Err(_) => Ok(format!("ok {} panic", hex(&b))),
    }
}
