//! Harness: runs one case per input line against the real crate (path dependency on /repo) and
//! prints one observation line, in the protocol of coq/Model/Dispatch.v / ocaml/driver.ml.
//!   <op> <type> <tok>...     tok = `=<ascii>` | `-` (empty) | hex
mod builders;
mod desc;

use coset::cbor::value::Value;
use coset::iana::{self, EnumI64, WithPrivateRange};
use coset::*;
use desc::*;
use std::io::{BufRead, Write};

pub type Out = Result<String, String>; // Err = badcase

fn unhex(s: &str) -> Result<Vec<u8>, String> {
    if s.len() % 2 != 0 {
        return Err("odd hex".into());
    }
    (0..s.len() / 2)
        .map(|i| u8::from_str_radix(&s[2 * i..2 * i + 2], 16).map_err(|_| "bad hex".to_string()))
        .collect()
}
fn tok(s: &str) -> Result<Vec<u8>, String> {
    if s == "-" {
        Ok(vec![])
    } else if let Some(r) = s.strip_prefix('=') {
        Ok(r.as_bytes().to_vec())
    } else {
        unhex(s)
    }
}
pub fn desc_arg(b: &[u8]) -> Result<Value, String> {
    Value::from_slice(b).map_err(|e| format!("baddesc-cbor:{:?}", e))
}

pub fn show_res<T>(r: Result<T, CoseError>, f: impl FnOnce(T) -> String) -> String {
    match r {
        Ok(x) => format!("ok {}", f(x)),
        Err(e) => show_err(&e).to_string(),
    }
}

/// Everything the generic ops need from a type.
pub trait Ty: Sized + Clone + PartialEq {
    const KDF: bool = false;
    fn dec(b: &[u8]) -> Result<Self, CoseError>;
    fn enc(self) -> Result<Vec<u8>, CoseError>;
    fn decval(b: &[u8]) -> Result<Self, CoseError>;
    fn encval(self) -> Result<Vec<u8>, CoseError>;
    fn dectag(_b: &[u8]) -> Option<Result<Self, CoseError>> {
        None
    }
    fn enctag(self) -> Option<Result<Vec<u8>, CoseError>> {
        None
    }
    fn d(&self) -> Value;
    fn o(v: &Value) -> R<Self>;
    fn shown(&self) -> String {
        if Self::KDF {
            match self.clone().enc() {
                Ok(b) => format!("enc={}", hex(&b)),
                Err(_) => "enc=?".to_string(),
            }
        } else {
            show_value(&self.d())
        }
    }
}

macro_rules! impl_ty {
    ($t:ty, $d:expr, $o:expr) => {
        impl Ty for $t {
            fn dec(b: &[u8]) -> Result<Self, CoseError> {
                <$t>::from_slice(b)
            }
            fn enc(self) -> Result<Vec<u8>, CoseError> {
                self.to_vec()
            }
            fn decval(b: &[u8]) -> Result<Self, CoseError> {
                <$t>::from_cbor_value(Value::from_slice(b)?)
            }
            fn encval(self) -> Result<Vec<u8>, CoseError> {
                self.to_cbor_value()?.to_vec()
            }
            fn d(&self) -> Value {
                $d(self)
            }
            fn o(v: &Value) -> R<Self> {
                $o(v)
            }
        }
    };
    ($t:ty, $d:expr, $o:expr, tagged) => {
        impl Ty for $t {
            fn dec(b: &[u8]) -> Result<Self, CoseError> {
                <$t>::from_slice(b)
            }
            fn enc(self) -> Result<Vec<u8>, CoseError> {
                self.to_vec()
            }
            fn decval(b: &[u8]) -> Result<Self, CoseError> {
                <$t>::from_cbor_value(Value::from_slice(b)?)
            }
            fn encval(self) -> Result<Vec<u8>, CoseError> {
                self.to_cbor_value()?.to_vec()
            }
            fn dectag(b: &[u8]) -> Option<Result<Self, CoseError>> {
                Some(<$t>::from_tagged_slice(b))
            }
            fn enctag(self) -> Option<Result<Vec<u8>, CoseError>> {
                Some(self.to_tagged_vec())
            }
            fn d(&self) -> Value {
                $d(self)
            }
            fn o(v: &Value) -> R<Self> {
                $o(v)
            }
        }
    };
}

impl_ty!(Value, |v: &Value| v.clone(), |v: &Value| Ok(v.clone()));
impl_ty!(Label, d_label, o_label);
impl_ty!(Header, d_header, o_header);
impl_ty!(ProtectedHeader, d_protected, o_protected);
impl_ty!(CoseSignature, d_signature, o_signature);
impl_ty!(CoseSign, d_sign, o_sign, tagged);
impl_ty!(CoseSign1, d_sign1, o_sign1, tagged);
impl_ty!(CoseMac, d_mac, o_mac, tagged);
impl_ty!(CoseMac0, d_mac0, o_mac0, tagged);
impl_ty!(CoseRecipient, d_recipient, o_recipient);
impl_ty!(CoseEncrypt, d_encrypt, o_encrypt, tagged);
impl_ty!(CoseEncrypt0, d_encrypt0, o_encrypt0, tagged);
impl_ty!(CoseKey, d_key, o_key);
impl_ty!(CoseKeySet, d_keyset, o_keyset);
impl_ty!(cwt::ClaimsSet, d_claims, o_claims);
impl_ty!(PartyInfo, d_party, o_party);
impl_ty!(SuppPubInfo, d_supp, o_supp);

impl Ty for CoseKdfContext {
    const KDF: bool = true;
    fn dec(b: &[u8]) -> Result<Self, CoseError> {
        CoseKdfContext::from_slice(b)
    }
    fn enc(self) -> Result<Vec<u8>, CoseError> {
        self.to_vec()
    }
    fn decval(b: &[u8]) -> Result<Self, CoseError> {
        CoseKdfContext::from_cbor_value(Value::from_slice(b)?)
    }
    fn encval(self) -> Result<Vec<u8>, CoseError> {
        self.to_cbor_value()?.to_vec()
    }
    fn d(&self) -> Value {
        Value::Null
    }
    fn o(v: &Value) -> R<Self> {
        o_kdf(v)
    }
}

impl<T: EnumI64 + Clone> Ty for RegisteredLabel<T> {
    fn dec(b: &[u8]) -> Result<Self, CoseError> {
        Self::from_slice(b)
    }
    fn enc(self) -> Result<Vec<u8>, CoseError> {
        self.to_vec()
    }
    fn decval(b: &[u8]) -> Result<Self, CoseError> {
        Self::from_cbor_value(Value::from_slice(b)?)
    }
    fn encval(self) -> Result<Vec<u8>, CoseError> {
        self.to_cbor_value()?.to_vec()
    }
    fn d(&self) -> Value {
        d_reg(self)
    }
    fn o(v: &Value) -> R<Self> {
        o_reg(v)
    }
}
impl<T: EnumI64 + WithPrivateRange + Clone> Ty for RegisteredLabelWithPrivate<T> {
    fn dec(b: &[u8]) -> Result<Self, CoseError> {
        Self::from_slice(b)
    }
    fn enc(self) -> Result<Vec<u8>, CoseError> {
        self.to_vec()
    }
    fn decval(b: &[u8]) -> Result<Self, CoseError> {
        Self::from_cbor_value(Value::from_slice(b)?)
    }
    fn encval(self) -> Result<Vec<u8>, CoseError> {
        self.to_cbor_value()?.to_vec()
    }
    fn d(&self) -> Value {
        d_regp(self)
    }
    fn o(v: &Value) -> R<Self> {
        o_regp(v)
    }
}

/// call `$f::<T>($args)` for the type named `$ty`
macro_rules! with_registry {
    ($reg:expr, $f:ident, $wrap:ident, $($args:expr),*) => {
        match $reg {
            "HeaderParameter" => $f::<$wrap<iana::HeaderParameter>>($($args),*),
            "HeaderAlgorithmParameter" => $f::<$wrap<iana::HeaderAlgorithmParameter>>($($args),*),
            "Algorithm" => $f::<$wrap<iana::Algorithm>>($($args),*),
            "KeyParameter" => $f::<$wrap<iana::KeyParameter>>($($args),*),
            "OkpKeyParameter" => $f::<$wrap<iana::OkpKeyParameter>>($($args),*),
            "Ec2KeyParameter" => $f::<$wrap<iana::Ec2KeyParameter>>($($args),*),
            "RsaKeyParameter" => $f::<$wrap<iana::RsaKeyParameter>>($($args),*),
            "SymmetricKeyParameter" => $f::<$wrap<iana::SymmetricKeyParameter>>($($args),*),
            "HssLmsKeyParameter" => $f::<$wrap<iana::HssLmsKeyParameter>>($($args),*),
            "WalnutDsaKeyParameter" => $f::<$wrap<iana::WalnutDsaKeyParameter>>($($args),*),
            "KeyType" => $f::<$wrap<iana::KeyType>>($($args),*),
            "EllipticCurve" => $f::<$wrap<iana::EllipticCurve>>($($args),*),
            "KeyOperation" => $f::<$wrap<iana::KeyOperation>>($($args),*),
            "CborTag" => $f::<$wrap<iana::CborTag>>($($args),*),
            "CoapContentFormat" => $f::<$wrap<iana::CoapContentFormat>>($($args),*),
            "CwtClaimName" => $f::<$wrap<iana::CwtClaimName>>($($args),*),
            _ => Err("unknown registry".to_string()),
        }
    };
}
macro_rules! with_private_registry {
    ($reg:expr, $f:ident, $wrap:ident, $($args:expr),*) => {
        match $reg {
            "HeaderParameter" => $f::<$wrap<iana::HeaderParameter>>($($args),*),
            "Algorithm" => $f::<$wrap<iana::Algorithm>>($($args),*),
            "EllipticCurve" => $f::<$wrap<iana::EllipticCurve>>($($args),*),
            "CwtClaimName" => $f::<$wrap<iana::CwtClaimName>>($($args),*),
            _ => Err("unknown private registry".to_string()),
        }
    };
}
macro_rules! with_ty {
    ($ty:expr, $f:ident, $($args:expr),*) => {
        match $ty {
            "Value" => $f::<Value>($($args),*),
            "Label" => $f::<Label>($($args),*),
            "Header" => $f::<Header>($($args),*),
            "ProtectedHeader" => $f::<ProtectedHeader>($($args),*),
            "CoseSignature" => $f::<CoseSignature>($($args),*),
            "CoseSign" => $f::<CoseSign>($($args),*),
            "CoseSign1" => $f::<CoseSign1>($($args),*),
            "CoseMac" => $f::<CoseMac>($($args),*),
            "CoseMac0" => $f::<CoseMac0>($($args),*),
            "CoseRecipient" => $f::<CoseRecipient>($($args),*),
            "CoseEncrypt" => $f::<CoseEncrypt>($($args),*),
            "CoseEncrypt0" => $f::<CoseEncrypt0>($($args),*),
            "CoseKey" => $f::<CoseKey>($($args),*),
            "CoseKeySet" => $f::<CoseKeySet>($($args),*),
            "ClaimsSet" => $f::<cwt::ClaimsSet>($($args),*),
            "PartyInfo" => $f::<PartyInfo>($($args),*),
            "SuppPubInfo" => $f::<SuppPubInfo>($($args),*),
            "CoseKdfContext" => $f::<CoseKdfContext>($($args),*),
            t => {
                if let Some(reg) = t.strip_prefix("Reg:") {
                    with_registry!(reg, $f, RegisteredLabel, $($args),*)
                } else if let Some(reg) = t.strip_prefix("RegP:") {
                    with_private_registry!(reg, $f, RegisteredLabelWithPrivate, $($args),*)
                } else {
                    Err("unknown type".to_string())
                }
            }
        }
    };
}

fn exercise<T: Ty>(v: &T) {
    // C01: every decoded value can be cloned, compared and dropped
    let c = v.clone();
    let _ = c == *v;
    drop(c);
}

fn op_dec<T: Ty>(b: &[u8]) -> Out {
    let r = T::dec(b);
    if let Ok(v) = &r {
        exercise(v);
    }
    Ok(show_res(r, |v| v.shown()))
}
fn op_decval<T: Ty>(b: &[u8]) -> Out {
    Ok(show_res(T::decval(b), |v| v.shown()))
}
fn op_dectag<T: Ty>(b: &[u8]) -> Out {
    match T::dectag(b) {
        Some(r) => {
            if let Ok(v) = &r {
                exercise(v);
            }
            Ok(show_res(r, |v| v.shown()))
        }
        None => Ok("err:Encode".to_string()),
    }
}
fn show_rej<T>(r: &Result<T, CoseError>) -> String {
    match r {
        Ok(_) => "ok ".to_string(),
        Err(e) => show_err(e).to_string(),
    }
}
fn roundtrip<T: Ty>(
    b: &[u8],
    dec: impl Fn(&[u8]) -> Result<T, CoseError>,
    enc: impl Fn(T) -> Result<Vec<u8>, CoseError>,
) -> Out {
    let v = match dec(b) {
        Ok(v) => v,
        r => return Ok(format!("rej {}", show_rej(&r))),
    };
    let b1 = match enc(v.clone()) {
        Ok(b1) => b1,
        Err(e) => return Ok(format!("ok reencode-failed {}", show_err(&e))),
    };
    let v2 = match dec(&b1) {
        Ok(v2) => v2,
        r => return Ok(format!("ok {} redecode-failed {}", hex(&b1), show_rej(&r))),
    };
    let b2 = match enc(v2.clone()) {
        Ok(b2) => b2,
        Err(e) => return Ok(format!("ok {} reencode2-failed {}", hex(&b1), show_err(&e))),
    };
    let same = v.shown() == v2.shown();
    Ok(format!(
        "ok {} {} {}",
        hex(&b1),
        if same { "T" } else { "F" },
        if b1 == b2 { "T" } else { "F" }
    ))
}
fn op_rt<T: Ty>(b: &[u8]) -> Out {
    roundtrip::<T>(b, |x| T::dec(x), |v| v.enc())
}
fn op_rttag<T: Ty>(b: &[u8]) -> Out {
    roundtrip::<T>(
        b,
        |x| T::dectag(x).unwrap_or(Err(CoseError::EncodeFailed)),
        |v| v.enctag().unwrap_or(Err(CoseError::EncodeFailed)),
    )
}
fn op_enc<T: Ty>(d: &[u8]) -> Out {
    let x = T::o(&desc_arg(d)?)?;
    Ok(show_res(x.enc(), |b| hex(&b)))
}
fn op_encdec<T: Ty>(d: &[u8]) -> Out {
    let x = T::o(&desc_arg(d)?)?;
    match x.enc() {
        Ok(b) => Ok(format!("ok {} {}", hex(&b), show_res(T::dec(&b), |v| v.shown()))),
        Err(e) => Ok(show_err(&e).to_string()),
    }
}
fn op_encval<T: Ty>(d: &[u8]) -> Out {
    let x = T::o(&desc_arg(d)?)?;
    Ok(show_res(x.encval(), |b| hex(&b)))
}
fn op_enctag<T: Ty>(d: &[u8]) -> Out {
    let x = T::o(&desc_arg(d)?)?;
    match x.enctag() {
        Some(r) => Ok(show_res(r, |b| hex(&b))),
        None => Ok("err:Encode".to_string()),
    }
}

fn show_ord(o: std::cmp::Ordering) -> &'static str {
    match o {
        std::cmp::Ordering::Less => "Lt",
        std::cmp::Ordering::Equal => "Eq",
        std::cmp::Ordering::Greater => "Gt",
    }
}
fn tf(b: bool) -> &'static str {
    if b {
        "T"
    } else {
        "F"
    }
}
fn cmp_generic<T: Ty + Ord>(a: &[u8], b: &[u8]) -> Out {
    let x = T::o(&desc_arg(a)?)?;
    let y = T::o(&desc_arg(b)?)?;
    let c = x.cmp(&y);
    if x.partial_cmp(&y) != Some(c) {
        return Ok("ok partial_cmp-disagrees".to_string());
    }
    Ok(format!("ok {} {}", show_ord(c), tf(x == y)))
}
fn op_cmp(kind: &str, a: &[u8], b: &[u8]) -> Out {
    if kind == "label" {
        cmp_generic::<Label>(a, b)
    } else if kind == "canonical" {
        let x = o_label(&desc_arg(a)?)?;
        let y = o_label(&desc_arg(b)?)?;
        Ok(format!("ok {} {}", show_ord(x.cmp_canonical(&y)), tf(x == y)))
    } else if let Some(reg) = kind.strip_prefix("reg:") {
        with_registry!(reg, cmp_generic, RegisteredLabel, a, b)
    } else if let Some(reg) = kind.strip_prefix("regp:") {
        with_private_registry!(reg, cmp_generic, RegisteredLabelWithPrivate, a, b)
    } else {
        Err("cmp kind".to_string())
    }
}

struct Plain<T>(T);
fn iana_one<W>(i: i64, private: Option<bool>) -> Out
where
    W: IanaName,
{
    let name = W::name(i);
    Ok(format!(
        "ok {} {}",
        match name {
            Some((n, z)) => format!("{} {}", n, if z < 0 { format!("-0x{:x}", -(z as i128)) } else { format!("0x{:x}", z) }),
            None => "none -".to_string(),
        },
        match private {
            Some(p) => tf(p),
            None => "-",
        }
    ))
}
trait IanaName {
    fn name(i: i64) -> Option<(String, i64)>;
}
impl<T: EnumI64 + std::fmt::Debug> IanaName for Plain<T> {
    fn name(i: i64) -> Option<(String, i64)> {
        T::from_i64(i).map(|x| (format!("{:?}", x), x.to_i64()))
    }
}
fn op_iana(reg: &str, i: i64) -> Out {
    let private = match reg {
        "HeaderParameter" => Some(iana::HeaderParameter::is_private(i)),
        "Algorithm" => Some(iana::Algorithm::is_private(i)),
        "EllipticCurve" => Some(iana::EllipticCurve::is_private(i)),
        "CwtClaimName" => Some(iana::CwtClaimName::is_private(i)),
        _ => None,
    };
    with_registry!(reg, iana_one, Plain, i, private)
}

fn sig_ctx(s: &str) -> Result<SignatureContext, String> {
    match s {
        "CoseSignature" => Ok(SignatureContext::CoseSignature),
        "CoseSign1" => Ok(SignatureContext::CoseSign1),
        "CounterSignature" => Ok(SignatureContext::CounterSignature),
        _ => Err("sig ctx".into()),
    }
}
fn mac_ctx(s: &str) -> Result<MacContext, String> {
    match s {
        "CoseMac" => Ok(MacContext::CoseMac),
        "CoseMac0" => Ok(MacContext::CoseMac0),
        _ => Err("mac ctx".into()),
    }
}
pub fn enc_ctx(s: &str) -> Result<EncryptionContext, String> {
    match s {
        "CoseEncrypt" => Ok(EncryptionContext::CoseEncrypt),
        "CoseEncrypt0" => Ok(EncryptionContext::CoseEncrypt0),
        "EncRecipient" => Ok(EncryptionContext::EncRecipient),
        "MacRecipient" => Ok(EncryptionContext::MacRecipient),
        "RecRecipient" => Ok(EncryptionContext::RecRecipient),
        _ => Err("enc ctx".into()),
    }
}

fn get_msg<T: Ty>(src_hex: bool, data: &[u8]) -> Result<Result<T, String>, String> {
    if src_hex {
        match T::dec(data) {
            Ok(m) => Ok(Ok(m)),
            Err(e) => Ok(Err(format!("nomsg {}", show_err(&e)))),
        }
    } else {
        match T::o(&desc_arg(data)?) {
            Ok(m) => Ok(Ok(m)),
            Err(e) => Err(e),
        }
    }
}

pub fn record2(a: &[u8], b: &[u8]) -> Result<String, ()> {
    Ok(format!("{} {}", hex(a), hex(b)))
}
fn which_of(b: &[u8]) -> usize {
    if b.len() == 1 {
        b[0] as usize
    } else {
        0
    }
}

/// "edited." helpers: the parsed view of every protected header of the message is changed after decoding
/// WITHOUT clearing `original_data` (the crate documents that the retained bytes stay authoritative)
trait EditProt {
    fn edit(&mut self);
}
fn edit_prot(p: &mut coset::ProtectedHeader) {
    p.header.key_id = b"EDITED".to_vec();
}
impl EditProt for CoseSign1 {
    fn edit(&mut self) {
        edit_prot(&mut self.protected);
    }
}
impl EditProt for CoseSign {
    fn edit(&mut self) {
        edit_prot(&mut self.protected);
        for s in self.signatures.iter_mut() {
            edit_prot(&mut s.protected);
        }
    }
}
impl EditProt for CoseMac {
    fn edit(&mut self) {
        edit_prot(&mut self.protected);
    }
}
impl EditProt for CoseMac0 {
    fn edit(&mut self) {
        edit_prot(&mut self.protected);
    }
}
impl EditProt for CoseEncrypt {
    fn edit(&mut self) {
        edit_prot(&mut self.protected);
    }
}
impl EditProt for CoseEncrypt0 {
    fn edit(&mut self) {
        edit_prot(&mut self.protected);
    }
}
impl EditProt for CoseRecipient {
    fn edit(&mut self) {
        edit_prot(&mut self.protected);
    }
}

fn op_helper(fnname: &str, src_hex: bool, data: &[u8], a: &[Vec<u8>]) -> Out {
    let (fnname, edited) = match fnname.strip_prefix("edited.") {
        Some(f) => (f, true),
        None => (fnname, false),
    };
    // "rebuilt." helpers: the retained bytes of the message's OWN protected header are cleared after decoding (the
    // documented way to make edits take effect), so that header is serialized afresh - while everything nested
    // inside it (counter-signatures) must still contribute its own retained bytes
    let (fnname, rebuilt) = match fnname.strip_prefix("rebuilt.") {
        Some(f) => (f, true),
        None => (fnname, false),
    };
    macro_rules! msg {
        ($t:ty) => {
            match get_msg::<$t>(src_hex, data)? {
                Ok(mut m) => {
                    if edited {
                        m.edit();
                    }
                    if rebuilt {
                        m.protected.original_data = None;
                    }
                    m
                }
                Err(s) => return Ok(s),
            }
        };
    }
    let need = |n: usize| -> Result<(), String> {
        if a.len() == n {
            Ok(())
        } else {
            Err("helper args".to_string())
        }
    };
    Ok(match fnname {
        "sign1.tbs_data" => {
            let m = msg!(CoseSign1);
            need(1)?;
            format!("ok {}", hex(&m.tbs_data(&a[0])))
        }
        "sign1.tbs_detached_data" => {
            let m = msg!(CoseSign1);
            need(2)?;
            format!("ok {}", hex(&m.tbs_detached_data(&a[0], &a[1])))
        }
        "sign1.verify_signature" => {
            let m = msg!(CoseSign1);
            need(1)?;
            let mut rec = String::new();
            let r: Result<(), ()> = m.verify_signature(&a[0], |s, d| {
                rec = record2(s, d).unwrap();
                Ok(())
            });
            r.unwrap();
            format!("ok {}", rec)
        }
        "sign1.verify_detached_signature" => {
            let m = msg!(CoseSign1);
            need(2)?;
            let mut rec = String::new();
            let r: Result<(), ()> = m.verify_detached_signature(&a[0], &a[1], |s, d| {
                rec = record2(s, d).unwrap();
                Ok(())
            });
            r.unwrap();
            format!("ok {}", rec)
        }
        "sign.tbs_data" => {
            let m = msg!(CoseSign);
            need(2)?;
            let sig = &m.signatures[which_of(&a[1])];
            format!("ok {}", hex(&m.tbs_data(&a[0], sig)))
        }
        "sign.tbs_detached_data" => {
            let m = msg!(CoseSign);
            need(3)?;
            let sig = &m.signatures[which_of(&a[2])];
            format!("ok {}", hex(&m.tbs_detached_data(&a[0], &a[1], sig)))
        }
        "sign.verify_signature" => {
            let m = msg!(CoseSign);
            need(2)?;
            let mut rec = String::new();
            let r: Result<(), ()> = m.verify_signature(which_of(&a[0]), &a[1], |s, d| {
                rec = record2(s, d).unwrap();
                Ok(())
            });
            r.unwrap();
            format!("ok {}", rec)
        }
        "sign.verify_detached_signature" => {
            let m = msg!(CoseSign);
            need(3)?;
            let mut rec = String::new();
            let r: Result<(), ()> =
                m.verify_detached_signature(which_of(&a[0]), &a[1], &a[2], |s, d| {
                    rec = record2(s, d).unwrap();
                    Ok(())
                });
            r.unwrap();
            format!("ok {}", rec)
        }
        "mac.verify_tag" => {
            let m = msg!(CoseMac);
            need(1)?;
            let mut rec = String::new();
            let r: Result<(), ()> = m.verify_tag(&a[0], |s, d| {
                rec = record2(s, d).unwrap();
                Ok(())
            });
            r.unwrap();
            format!("ok {}", rec)
        }
        "mac0.verify_tag" => {
            let m = msg!(CoseMac0);
            need(1)?;
            let mut rec = String::new();
            let r: Result<(), ()> = m.verify_tag(&a[0], |s, d| {
                rec = record2(s, d).unwrap();
                Ok(())
            });
            r.unwrap();
            format!("ok {}", rec)
        }
        "encrypt.decrypt" => {
            let m = msg!(CoseEncrypt);
            need(1)?;
            let r: Result<Vec<u8>, ()> =
                m.decrypt(&a[0], |c, d| Ok(record2(c, d).unwrap().into_bytes()));
            format!("ok {}", String::from_utf8(r.unwrap()).unwrap())
        }
        "encrypt0.decrypt" => {
            let m = msg!(CoseEncrypt0);
            need(1)?;
            let r: Result<Vec<u8>, ()> =
                m.decrypt(&a[0], |c, d| Ok(record2(c, d).unwrap().into_bytes()));
            format!("ok {}", String::from_utf8(r.unwrap()).unwrap())
        }
        "recipient.decrypt" => {
            let m = msg!(CoseRecipient);
            need(2)?;
            let ctx = enc_ctx(std::str::from_utf8(&a[0]).map_err(|_| "ctx")?)?;
            let r: Result<Vec<u8>, ()> =
                m.decrypt(ctx, &a[1], |c, d| Ok(record2(c, d).unwrap().into_bytes()));
            format!("ok {}", String::from_utf8(r.unwrap()).unwrap())
        }
        "countersig.tbs" => {
            // Sig_structure for the k-th counter-signature found in the protected (else unprotected) header of a
            // decoded COSE_Sign1: context CounterSignature, body = the message's protected header, sign = the
            // counter-signature's protected header
            let m = msg!(CoseSign1);
            need(3)?;
            let k = which_of(&a[0]);
            let cs = if !m.protected.header.counter_signatures.is_empty() {
                &m.protected.header.counter_signatures
            } else {
                &m.unprotected.counter_signatures
            };
            if k >= cs.len() {
                return Ok("nocsig".to_string());
            }
            format!(
                "ok {}",
                hex(&sig_structure_data(
                    SignatureContext::CounterSignature,
                    m.protected.clone(),
                    Some(cs[k].protected.clone()),
                    &a[1],
                    &a[2]
                ))
            )
        }
        _ => return Err("helper fn".to_string()),
    })
}

fn op_canon(ord: &str, d: &[u8]) -> Out {
    let mut k = o_key(&desc_arg(d)?)?;
    let o = match ord {
        "Lexicographic" => CborOrdering::Lexicographic,
        "LengthFirstLexicographic" => CborOrdering::LengthFirstLexicographic,
        _ => return Err("ordering".into()),
    };
    k.canonicalize(o);
    Ok(format!(
        "ok {} {}",
        show_value(&d_key(&k)),
        show_res(k.to_vec(), |b| hex(&b))
    ))
}

fn run_case(line: &str) -> Out {
    let parts: Vec<&str> = line.split(' ').filter(|s| !s.is_empty()).collect();
    if parts.len() < 2 {
        return Err("badline".into());
    }
    let op = parts[0];
    let ty = parts[1];
    let args: Vec<Vec<u8>> = parts[2..].iter().map(|s| tok(s)).collect::<Result<_, _>>()?;
    let arg = |i: usize| -> Result<&[u8], String> {
        args.get(i).map(|v| v.as_slice()).ok_or_else(|| "missing arg".to_string())
    };
    match op {
        "dec" => with_ty!(ty, op_dec, arg(0)?),
        "decval" => with_ty!(ty, op_decval, arg(0)?),
        "dectag" => with_ty!(ty, op_dectag, arg(0)?),
        "rt" => with_ty!(ty, op_rt, arg(0)?),
        "rttag" => with_ty!(ty, op_rttag, arg(0)?),
        "enc" => with_ty!(ty, op_enc, arg(0)?),
        "encval" => with_ty!(ty, op_encval, arg(0)?),
        "encdec" => with_ty!(ty, op_encdec, arg(0)?),
        "enctag" => with_ty!(ty, op_enctag, arg(0)?),
        "cmp" => op_cmp(ty, arg(0)?, arg(1)?),
        "iana" => {
            let i = o_i64(&desc_arg(arg(0)?)?)?;
            op_iana(ty, i)
        }
        "sigdata" => {
            let body = o_protected(&desc_arg(arg(0)?)?)?;
            let sv = desc_arg(arg(1)?)?;
            let sign = match sv {
                Value::Null => None,
                v => Some(o_protected(&v)?),
            };
            Ok(format!(
                "ok {}",
                hex(&sig_structure_data(sig_ctx(ty)?, body, sign, arg(2)?, arg(3)?))
            ))
        }
        "macdata" => {
            let p = o_protected(&desc_arg(arg(0)?)?)?;
            Ok(format!(
                "ok {}",
                hex(&mac_structure_data(mac_ctx(ty)?, p, arg(1)?, arg(2)?))
            ))
        }
        "encdata" => {
            let p = o_protected(&desc_arg(arg(0)?)?)?;
            Ok(format!("ok {}", hex(&enc_structure_data(enc_ctx(ty)?, p, arg(1)?))))
        }
        "helperhex" => op_helper(ty, true, arg(0)?, &args[1..]),
        "helperdesc" => op_helper(ty, false, arg(0)?, &args[1..]),
        "build" => builders::op_build(ty, &desc_arg(arg(0)?)?),
        "buildrt" => builders::op_buildrt(ty, &desc_arg(arg(0)?)?, !arg(1)?.is_empty(), &args[2..]),
        "canon" => op_canon(ty, arg(0)?),
        "timedec" => with_ty!(ty, op_timedec, arg(0)?),
        _ => Err("unknown op".into()),
    }
}

/// Decoding time relative to plain CBOR parsing of the same bytes (implementation only): `ok <accepted|rejected>`
/// when typed decoding takes at most 25 times the parse time plus two seconds (best of two runs), `slow ..` otherwise.
fn op_timedec<T: Ty>(b: &[u8]) -> Out {
    use std::time::Instant;
    let mut best_v = f64::MAX;
    let mut best_t = f64::MAX;
    let mut accepted = false;
    for _ in 0..3 {
        let t0 = Instant::now();
        let v: Result<Value, _> = coset::cbor::de::from_reader(b);
        let tv = t0.elapsed().as_secs_f64();
        drop(v);
        let t1 = Instant::now();
        let r = T::dec(b);
        let tt = t1.elapsed().as_secs_f64();
        accepted = r.is_ok();
        // dropping is part of "processing that follows"
        let t2 = Instant::now();
        drop(r);
        let td = t2.elapsed().as_secs_f64();
        best_v = best_v.min(tv);
        best_t = best_t.min(tt + td);
    }
    if best_t <= 25.0 * best_v + 0.5 {
        Ok(format!("ok {}", if accepted { "accepted" } else { "rejected" }))
    } else {
        Ok(format!("slow typed={:.3}s parse={:.3}s len={}", best_t, best_v, b.len()))
    }
}

fn run_guarded(line: String) -> String {
    let r = std::panic::catch_unwind(move || run_case(&line));
    match r {
        Ok(Ok(s)) => s,
        Ok(Err(e)) => format!("badcase {}", e),
        Err(_) => "panic".to_string(),
    }
}

fn main() {
    std::panic::set_hook(Box::new(|_| {}));
    let threaded = std::env::var("HARNESS_THREAD").map(|v| v == "1").unwrap_or(false);
    let stdin = std::io::stdin();
    let stdout = std::io::stdout();
    let mut out = stdout.lock();
    for line in stdin.lock().lines() {
        let line = match line {
            Ok(l) => l,
            Err(_) => break,
        };
        let res = if threaded {
            // a fresh thread with the default (2 MiB) stack per case
            std::thread::spawn(move || run_guarded(line))
                .join()
                .unwrap_or_else(|_| "panic".to_string())
        } else {
            run_guarded(line)
        };
        writeln!(out, "{}", res).unwrap();
        out.flush().unwrap();
    }
}
