(* Driver for the extracted model: one case per input line, one observation per output line.
   Line format:  <op> <type> <tok>...   where a token is `=<ascii>` (literal bytes),
   `-` (empty) or lowercase hex.  The only glue between OCaml data and the extracted
   inductives is byte <-> char: Coq's `byte` has 256 constant constructors x00..xff in
   order, which OCaml represents as the immediate integers 0..255. *)
let byte_of_int (i : int) : Byte.byte = Obj.magic i
let int_of_byte (b : Byte.byte) : int = Obj.magic b

let bytes_of_raw (s : Stdlib.String.t) : Byte.byte list =
  let r = ref [] in
  for i = Stdlib.String.length s - 1 downto 0 do
    r := byte_of_int (Char.code (Stdlib.String.get s i)) :: !r
  done; !r

let hexval c =
  match c with
  | '0'..'9' -> Char.code c - 48
  | 'a'..'f' -> Char.code c - 87
  | 'A'..'F' -> Char.code c - 55
  | _ -> failwith "bad hex"

let bytes_of_hex (s : Stdlib.String.t) : Byte.byte list =
  let n = Stdlib.String.length s in
  if n mod 2 <> 0 then failwith "odd hex";
  let r = ref [] in
  let i = ref (n - 2) in
  while !i >= 0 do
    r := byte_of_int (hexval (Stdlib.String.get s !i) * 16 + hexval (Stdlib.String.get s (!i + 1))) :: !r;
    i := !i - 2
  done; !r

let tok (s : Stdlib.String.t) : Byte.byte list =
  if s = "-" then []
  else if Stdlib.String.length s > 0 && (Stdlib.String.get s 0) = '=' then
    bytes_of_raw (Stdlib.String.sub s 1 (Stdlib.String.length s - 1))
  else bytes_of_hex s

let print_bytes (l : Byte.byte list) =
  let b = Buffer.create 256 in
  Stdlib.List.iter (fun x -> Buffer.add_char b (Char.chr (int_of_byte x))) l;
  print_string (Buffer.contents b); print_newline ()

let () =
  try
    while true do
      let line = input_line stdin in
      let parts = Stdlib.List.filter (fun s -> s <> "") (Stdlib.String.split_on_char ' ' line) in
      match parts with
      | op :: ty :: rest ->
        (try
           let args = bytes_of_raw ty :: Stdlib.List.map tok rest in
           print_bytes (Dispatch.run_case (bytes_of_raw op) args)
         with
         | Stack_overflow -> print_endline "driver-stack-overflow"
         | Failure m -> print_endline ("driver-error " ^ m))
      | _ -> print_endline "badline"
    done
  with End_of_file -> ()
