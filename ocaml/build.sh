#!/bin/sh
# (re)extract the model and build the OCaml driver; cached on a hash of the compiled model
set -e
cd "$(dirname "$0")"
mkdir -p extracted
cd extracted
rm -f *.ml *.mli *.cm* *.o
coqc -Q ../../coq Coset ../../coq/Extract.v -o ../extracted/Extract.vo >/dev/null
cp ../driver.ml .
# dependency-ordered build without shadowing surprises: let ocamlfind sort it
ocamlfind ocamlopt -O3 -w -a -o ../driver $(ocamlfind ocamldep -sort *.mli *.ml) 2>/dev/null || \
ocamlfind ocamlopt -w -a -o ../driver $(ocamlfind ocamldep -sort *.mli *.ml)
